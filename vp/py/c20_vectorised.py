#!/usr/bin/env python3
"""C20: vectorised PyImath operations equal element-wise scalar operations under any task partition.

Every catalogued vectorised entry point (py/c20_catalogue.json, frozen from the unchanged tree) is evaluated
(1) without a WorkerPool, (2) under a harness-owned WorkerPool executing a *generated* schedule (partition of the
index range, execution order, worker ids, serial or truly concurrent), and compared bit-for-bit; where a scalar
binding of the same name exists (or the element type is a built-in number) every element is also compared with
the scalar result; argument arrays of mismatched length must raise.  The module is ASan-instrumented.
"""
import json, os, sys
from hypothesis import strategies as st
import imath
from pvp import Violation, Group, Runner
from c20_common import *

CAT = json.load(open(os.path.join(os.path.dirname(os.path.abspath(__file__)), "c20_catalogue.json")))
KWNAMES = json.load(open(os.path.join(os.path.dirname(os.path.abspath(__file__)), "c20_kwnames.json")))  # frozen on the unchanged tree
TWIN_FULL = set((e["subject"], e["name"], e["args"][0][4:]) for e in CAT if e.get("rhs_full_ok") and len(e["args"]) == 1 and e["args"][0].startswith("arr:"))
POOL = Pool()
LENGTHS = [0, 1, 2, 199, 200, 201, 202, 257, 1000]


def make_schedule(p, length):
    """p: dict(cuts=[ints], order_salt, tid_salt, mode, workers) -> normalised schedule"""
    workers = 1 + p["workers"] % 6
    raw = sorted(c % 65537 for c in p["cuts"])
    cuts = [0] + raw + [65536]
    n = len(cuts) - 1
    order = list(range(n))
    # deterministic permutation from the salt (Fisher-Yates with an LCG)
    x = p["order_salt"] * 2654435761 % (2**32) or 1
    for i in range(n - 1, 0, -1):
        x = (x * 1103515245 + 12345) % (2**31)
        j = x % (i + 1)
        order[i], order[j] = order[j], order[i]
    y = p["tid_salt"] * 40503 % (2**32) or 7
    tids = []
    for i in range(n):
        y = (y * 1103515245 + 12345) % (2**31)
        tids.append(y % workers)
    return dict(workers=workers, cuts=cuts, order=order, tids=tids, mode=p["mode"] % 2)


def run_entry(e, n, a, b, self_masked, rhs_full=False, self_strided=False, arg_strided=False, arg_member=False):
    out, self_elems, arg_elems = evaluate(e, n, a, b, self_masked, rhs_full, self_strided, arg_strided, arg_member)
    tag = e["subject"].partition(":")[0]
    if e["kind"] == "array":
        got = out["result"]
    elif e["kind"] == "inplace":
        got = out["self_after"]
    else:
        got = out["self_after"]
    return got, self_elems, arg_elems, out


def interp(p):
    e = CAT[p["entry"] % len(CAT)]
    n = LENGTHS[p["len"] % len(LENGTHS)]
    a, b = p["a"], p["b"]
    tag, _, what = e["subject"].partition(":")
    self_masked = bool(p.get("self_masked")) and tag == "method" and e.get("self_masked_ok", False)
    # in-place operators on a masked subject also accept a right-hand side of the subject's UNMASKED length; the
    # catalogue records that for plain array arguments (rhs_full_ok), the masked-reference twin of such an entry
    # inherits it (a masked right-hand side of full length pairs element i of the view with rhs[raw index of i] too)
    full_ok = e.get("rhs_full_ok") or (len(e["args"]) == 1 and e["args"][0].startswith("mask:") and (e["subject"], e["name"], e["args"][0][5:]) in TWIN_FULL)
    rhs_full = bool(self_masked and full_ok and p.get("rhs_full", 1))
    # layout of the subject / the array arguments: member views of aggregate arrays (stride 3 or 2)
    self_strided = bool(p.get("strided", 0) & 1) and tag == "method" and not self_masked and what in STRIDED
    arg_strided = bool(p.get("strided", 0) & 2) and not rhs_full and any(k.startswith("arr:") and k[4:] in STRIDED for k in e["args"])
    arg_member = bool(p.get("arg_member")) and tag == "method" and not self_masked and not self_strided and not rhs_full
    sched = make_schedule(p["sched"], n)
    where = "%s %s%r n=%d" % (e["subject"], e["name"], tuple(e["args"]), n)
    labels = set()
    if rhs_full and e["args"][0].startswith("mask:"):
        labels.add("masked_subject_masked_rhs_unmasked_length")
    if POOL.lib is None:
        raise Violation("harness/no-pool-shim", "VP_POOLSHIM not set")
    # (1) no pool
    POOL.remove()
    try:
        r0, self_elems, arg_elems, out0 = run_entry(e, n, a, b, self_masked, rhs_full, self_strided, arg_strided, arg_member)
    except Exception as ex:
        raise Violation("catalogue/entry-raises", "%s raised %r without a pool (it did not on the unchanged tree)" % (where, ex))
    if e["kind"] == "array" and (r0 is None or len(r0) != n):
        raise Violation("result/length", "%s returned %s instead of an array of length %d" % (where, "None" if r0 is None else "length %d" % len(r0), n))
    # (2) generated schedule
    POOL.install(sched["workers"])
    POOL.schedule(sched["cuts"], sched["order"], sched["tids"], sched["mode"])
    POOL.reset_stats()
    try:
        r1, _se, _ae, _o = run_entry(e, n, a, b, self_masked, rhs_full, self_strided, arg_strided, arg_member)
    except Exception as ex:
        POOL.remove()
        raise Violation("schedule/raises-under-pool", "%s raised %r under schedule %r" % (where, ex, sched))
    stats = POOL.stats()
    POOL.remove()
    if r0 != r1:
        diff = [i for i in range(min(len(r0), len(r1))) if r0[i] != r1[i]] if isinstance(r0, list) and isinstance(r1, list) else []
        raise Violation("schedule/result-depends-on-partition", "%s: result under schedule cuts=%r order=%r tids=%r mode=%d workers=%d differs from the no-pool result at positions %r (e.g. %r vs %r)" % (
            where, [c * n >> 16 for c in sched["cuts"]], sched["order"], sched["tids"], sched["mode"], sched["workers"], diff[:8], r1[diff[0]] if diff else r1, r0[diff[0]] if diff else r0))
    # module functions are also called by keyword, with the argument names catalogued on the unchanged tree: the
    # result must be the positional one (atan2(y=.., x=..): the names carry the meaning of the arguments)
    if tag == "func" and str(len(e["args"])) in KWNAMES.get(e["name"], {}) and n <= 300:
        names_ = KWNAMES[e["name"]][str(len(e["args"]))]
        keep_, kargs_ = [], []
        for jj, k in enumerate(e["args"]):
            v_, ka_ = build_arg(k, n, a + jj + 1, b + 2 * jj)
            kargs_.append(v_)
            keep_.append(ka_)
        try:
            rk = getattr(imath, e["name"])(**dict(zip(names_, kargs_)))
        except Exception as ex:
            raise Violation("keyword/call-raises", "%s called as %s(%s) raised %r (argument names catalogued on the unchanged tree)" % (where, e["name"], ", ".join(n_ + "=..." for n_ in names_), ex))
        ck = snapshot(rk) if type(rk).__name__.endswith("Array") else None
        if ck is not None and ck != r0:
            diff = [i for i in range(min(len(ck), len(r0))) if ck[i] != r0[i]]
            raise Violation("keyword/result-differs-from-positional", "%s: %s(%s) differs from the positional call at positions %r (e.g. %r vs %r)" % (where, e["name"], ", ".join(n_ + "=..." for n_ in names_), diff[:6], ck[diff[0]] if diff else ck, r0[diff[0]] if diff else r0))
        labels.add("keyword_call")
    # short arrays: every member view of the subject that fits an array argument is tried, not only the rotating pick
    if arg_member and out0.get("member_used") and n <= 16 and isinstance(r0, list):
        for pick in range(4):
            try:
                outm, sem, aem = evaluate(e, n, a, b, False, False, False, False, True, pick)
            except Exception as ex:
                raise Violation("catalogue/entry-raises", "%s [argument = subject member #%d] raised %r" % (where, pick, ex))
            gm = outm["result"] if e["kind"] == "array" else outm["self_after"]
            if e.get("scalar_oracle") in ("exact", "approx") and isinstance(gm, list):
                for i in range(n):
                    exp = scalar_expected(e, sem, aem, e["args"], i)
                    ok_ = (gm[i] == exp) if e["scalar_oracle"] == "exact" else approx_equal(gm[i], exp)
                    if not ok_:
                        raise Violation("scalar/element-differs", "%s [argument = subject.%s]: element %d is %s, the scalar binding gives %s" % (where, outm.get("member_used"), i, gm[i], exp))
    for o_ in (out0, _o):
        if o_.get("strided") and not o_.get("neighbours_intact", True):
            raise Violation("strided-subject/neighbouring-members-modified", "%s: the subject is the member view of an aggregate array; the operation changed other members of the parent's elements" % where)
    if out0.get("member_used"):
        labels.add("argument_is_member_view_of_subject")
        where += " [argument = subject.%s]" % out0["member_used"]
    if self_strided:
        labels.add("strided_subject")
    if arg_strided:
        labels.add("strided_argument")
    dispatched = stats[0] > 0
    if dispatched:
        labels.add("dispatched")
        if sched["mode"] == 1:
            labels.add("concurrent")
    nonempty = [k for k in range(len(sched["order"])) if (sched["cuts"][k + 1] * n >> 16) > (sched["cuts"][k] * n >> 16)]
    out_of_order = any(sched["order"][q] > sched["order"][q + 1] for q in range(len(sched["order"]) - 1))
    nontrivial = dispatched and n > 200 and len(nonempty) >= 2 and out_of_order
    # (3) scalar oracle
    if e.get("scalar_oracle") in ("exact", "approx") and isinstance(r0, list) and n > 0:
        idxs = list(range(n)) if n <= 64 else sorted(set([0, 1, n - 1, n - 2, n // 2] + [((c * n) >> 16) % n for c in sched["cuts"]] + [(17 * q + a) % n for q in range(40)]))
        for i in idxs:
            try:
                exp = scalar_expected(e, self_elems, arg_elems, e["args"], i)
            except Exception as ex:
                raise Violation("scalar/binding-raises", "%s: scalar form raised %r at element %d" % (where, ex, i))
            if e["scalar_oracle"] == "exact":
                ok = r0[i] == exp
            else:
                ok = approx_equal(r0[i], exp)
            if not ok:
                raise Violation("scalar/element-differs", "%s: element %d is %s, the scalar binding gives %s" % (where, i, r0[i], exp))
        labels.add("scalar_oracle_" + e["scalar_oracle"])
    # (3b) scalar-object methods that fold an array into their subject (Box.extendBy): the result must equal the
    # subject after applying the scalar method to every element in turn
    if e["kind"] == "subject-inplace" and n > 0:
        try:
            subj = scalar_instance(what, a, b)
            for i in range(n):
                getattr(subj, e["name"])(arg_elems[0][i])
            exp = repr(subj)
        except Exception as ex:
            raise Violation("scalar/binding-raises", "%s: scalar form raised %r" % (where, ex))
        if r0 != exp:
            raise Violation("scalar/fold-differs", "%s: array form gives %s, applying the scalar method to each of the %d elements gives %s" % (where, r0, n, exp))
        labels.add("scalar_fold_oracle")
    # (4) mismatched lengths must raise
    arr_args = [j for j, k in enumerate(e["args"]) if k.startswith(("arr:", "mask:"))]
    if arr_args and n >= 1 and p.get("mismatch") and not rhs_full:
        j = arr_args[p["mismatch"] % len(arr_args)]
        # wrong lengths: one more, one less, empty, a single element, twice as many (all of them for short arrays, one
        # rotating choice above the dispatch threshold where building the operands dominates the cost)
        wrong = [w for w in (n + 1, n - 1, 0, 1, 2 * n) if w != n and w >= 0]
        wrong = sorted(set(wrong))
        if n > 16:
            wrong = [wrong[(p["mismatch"] + a) % len(wrong)]]
        for wl in wrong:
            keep = []
            args = []
            for jj, k in enumerate(e["args"]):
                v, ka = build_arg(k, wl if jj == j else n, a + jj + 1, b + 2 * jj)
                args.append(v)
                keep.append(ka)
            if tag == "method":
                subj, ka = build_array(what, n, a, b)
                fn = getattr(subj, e["name"])
            elif tag == "func":
                fn = getattr(imath, e["name"])
            else:
                fn = getattr(scalar_instance(what, a, b), e["name"])
            only_arrays = tag != "method" and len(arr_args) == 1
            if only_arrays:
                break
            before = snapshot(subj) if tag == "method" else None
            try:
                fn(*args)
            except Exception:
                labels.add("mismatch_raises")
                if wl == 0:
                    labels.add("mismatch_empty_raises")
            else:
                raise Violation("mismatch/no-exception", "%s with argument %d of length %d (others %d) did not raise" % (where, j, wl, n))
            if tag == "method" and snapshot(subj) != before:
                raise Violation("mismatch/subject-modified", "%s with argument %d of length %d (others %d) raised but changed its subject" % (where, j, wl, n))
    if e.get("scalar_oracle") == "none":
        labels.add("no_scalar_form")
    labels.add(tag)
    labels.add(e["kind"])
    if self_masked:
        labels.add("masked_subject")
    if rhs_full:
        labels.add("masked_subject_unmasked_length_rhs")
    return dict(nontrivial=nontrivial, labels=sorted(labels), desc="%s schedule cuts=%r order=%r tids=%r mode=%d" % (where, [c * n >> 16 for c in sched["cuts"]], sched["order"], sched["tids"], sched["mode"]))


I = st.integers
SCHED = st.fixed_dictionaries(dict(cuts=st.lists(I(0, 65536), min_size=0, max_size=7), order_salt=I(0, 10**6), tid_salt=I(0, 10**6), mode=I(0, 1), workers=I(0, 5)))
PROG = st.fixed_dictionaries(dict(entry=I(0, max(len(CAT) - 1, 0)), len=st.sampled_from([3, 4, 5, 6, 7, 8, 8, 7, 5, 0, 1, 2]), a=I(0, 50), b=I(0, 50), self_masked=st.booleans(), strided=I(0, 3), arg_member=st.booleans(), mismatch=I(0, 3), sched=SCHED))


def sweep_items(tier, seed):
    """every catalogue entry x {short, above-threshold} lengths x schedules (quick: 1 per length; thorough: 6)"""
    reps = 6 if tier == "thorough" else 1
    items = []
    for idx in range(len(CAT)):
        for li in ((2, 5, 7) if tier != "thorough" else (0, 2, 3, 5, 7, 8)):
            for r in range(reps):
                s = (idx * 31 + li * 7 + r * 13 + seed) % 1000
                items.append(dict(entry=idx, len=li, a=(s + 1) % 17, b=(s * 3) % 23, self_masked=(s % 3 == 0), strided=(1 + (s // 3) % 3) if (li + r) % 3 == 1 else 0, arg_member=((li + r) % 3 == 2), mismatch=1 + s % 3,
                                  sched=dict(cuts=[(s * 977 + 13000 * q) % 65537 for q in range(1 + s % 5)], order_salt=s + 1, tid_salt=s + 2, mode=(s + r) % 2, workers=s % 6)))
    return items


GCAT = json.load(open(os.path.join(os.path.dirname(os.path.abspath(__file__)), "c20_catalogue_grid.json")))


def interp_grid(p):
    e = GCAT[p["entry"] % len(GCAT)]
    cls = e["cls"]
    nx, ny = 1 + p["nx"] % 6, 1 + p["ny"] % 5
    a, b = p["a"], p["b"]
    where = "%s.%s(%s) %dx%d" % (cls, e["name"], e["arg"], nx, ny)
    labels = set([cls, e["kind"]])
    try:
        subj, vals = grid_build(cls, nx, ny, a, b)
        arg, av = (None, None) if e["arg"] == "none" else grid_arg(e["arg"], cls, nx, ny, a + 1, b + 2)
        r = getattr(subj, e["name"])(*([] if e["arg"] == "none" else [arg]))
    except Exception as ex:
        raise Violation("catalogue/entry-raises", "%s raised %r (it did not on the unchanged tree)" % (where, ex))
    if e["kind"] == "array":
        rcls = type(r).__name__
        if rcls != e["result_class"] or grid_shape(rcls, r) != (nx, ny):
            raise Violation("grid/result-shape", "%s returned %s of shape %r" % (where, rcls, grid_shape(rcls, r) if rcls in GRID else None))
        got = grid_canon(rcls, r)
        # the operands of a value-returning operator must be untouched
        after = grid_canon(cls, subj)
        inplace_op = e["name"].startswith("__i") and e["name"] not in ("__invert__",)
        if inplace_op:
            labels.add("inplace_operator")
        for ij in vals:
            if not inplace_op and after[ij] != repr(vals[ij]):
                raise Violation("grid/operand-modified", "%s modified its left operand at %r" % (where, ij))
    else:
        got = grid_canon(cls, subj)
    if e["scalar_oracle"] in ("exact", "approx"):
        for ij in vals:
            try:
                exp = grid_expected(e, vals, arg, av, ij)
            except Exception as ex:
                raise Violation("scalar/binding-raises", "%s: scalar form raised %r at %r" % (where, ex, ij))
            ok = got[ij] == exp if e["scalar_oracle"] == "exact" else approx_equal(got[ij], exp)
            if not ok:
                raise Violation("grid/element-differs", "%s: element %r is %s, the scalar operation gives %s" % (where, ij, got[ij], exp))
        labels.add("scalar_oracle_" + e["scalar_oracle"])
    # mismatched shapes must raise
    if e["arg"] == "same" and p.get("mismatch"):
        subj2, _v2 = grid_build(cls, nx, ny, a, b)
        other, _ov = grid_build(cls, nx + (1 if p["mismatch"] % 2 else 0), ny + (0 if p["mismatch"] % 2 else 1), a, b, signed=False)
        try:
            getattr(subj2, e["name"])(other)
        except Exception:
            labels.add("mismatch_raises")
        else:
            raise Violation("mismatch/no-exception", "%s with an operand of another shape did not raise" % where)
    return dict(nontrivial=nx * ny > 1, labels=sorted(labels), desc=where)


def grid_items(tier, seed):
    items = []
    reps = 4 if tier == "thorough" else 1
    for idx in range(len(GCAT)):
        for r in range(reps):
            s = (idx * 17 + r * 29 + seed) % 997
            items.append(dict(entry=idx, nx=s % 6, ny=(s // 6) % 5, a=(s + 1) % 17, b=(s * 3) % 23, mismatch=1 + s % 2))
    return items


CCAT = json.load(open(os.path.join(os.path.dirname(os.path.abspath(__file__)), "c20_catalogue_ctor.json")))


def interp_ctor(p):
    e = CCAT[p["entry"] % len(CCAT)]
    cls, comp, k = e["cls"], e["comp"], e["k"]
    n = LENGTHS[p["len"] % len(LENGTHS)]
    a, b = p["a"], p["b"]
    T = ARR[cls]["T"]
    where = "%s(%s)" % (cls, ", ".join([comp] * k))
    labels = set(["k%d" % k])

    def build(lengths):
        return [build_array(comp, lengths[j], a + j + 1, b + j + 2, signed=False)[0] for j in range(k)]
    POOL.remove()
    try:
        args = build([n] * k)
        r0 = T(*args)
    except Exception as ex:
        raise Violation("catalogue/entry-raises", "%s n=%d raised %r (it did not on the unchanged tree)" % (where, n, ex))
    if len(r0) != n:
        raise Violation("result/length", "%s returned %d elements for %d" % (where, len(r0), n))
    c0 = canon(r0)
    sched = make_schedule(p["sched"], n)
    POOL.install(sched["workers"])
    POOL.schedule(sched["cuts"], sched["order"], sched["tids"], sched["mode"])
    POOL.reset_stats()
    try:
        r1 = T(*build([n] * k))
    finally:
        st_ = POOL.stats()
        POOL.remove()
    if canon(r1) != c0:
        raise Violation("schedule/result-depends-on-partition", "%s n=%d differs under schedule %r" % (where, n, sched))
    if st_[0] > 0:
        labels.add("dispatched")
    if e["scalar_oracle"] == "exact" and n > 0:
        E = getattr(imath, ARR[cls]["elem"])
        for i in (range(n) if n <= 64 else sorted(set([0, 1, n - 1, n // 2] + [(13 * q + a) % n for q in range(30)]))):
            exp = repr(E(*[x[i] for x in args]))
            if c0[i] != exp:
                raise Violation("ctor/element-differs", "%s: element %d is %s, the scalar constructor gives %s" % (where, i, c0[i], exp))
        labels.add("scalar_oracle_exact")
    if k > 1 and n >= 1:
        # every way of giving SOME of the arguments another length must raise: single arguments, and groups that agree
        # among themselves (suffixes, prefixes, rows and columns of the 9 / 16 matrix components) - a chain of pairwise
        # length checks with a missing link accepts exactly such a group.  A wrong acceptance reads out of bounds,
        # which the ASan build reports as an abort attributed to this program.
        groups = [[j] for j in range(k)]
        if k >= 3:
            for g in range(2, k):
                groups.append(list(range(k - g, k)))      # suffix
                groups.append(list(range(0, g)))          # prefix
            side = 4 if k == 16 else (3 if k == 9 else (2 if k == 4 else 0))
            if side:
                for r_ in range(side):
                    groups.append([side * r_ + c_ for c_ in range(side)])   # one row of components
                    groups.append([side * c_ + r_ for c_ in range(side)])   # one column
        wrongs = [n + 1 + (p["a"] % 3)] + ([n - 1] if n >= 2 else []) + [0]
        todo = [(g, w) for g in groups for w in wrongs]
        if n > 16:
            todo = [todo[(q * 7 + p["a"] + p["b"]) % len(todo)] for q in range(6)]
        for g, w in todo:
            lens = [n] * k
            for j in g:
                lens[j] = w
            try:
                T(*build(lens))
            except Exception:
                labels.add("mismatch_raises")
                if len(g) > 1:
                    labels.add("group_mismatch_raises")
            else:
                raise Violation("mismatch/no-exception", "%s with arguments %r of length %d (others %d) did not raise" % (where, g, w, n))
    return dict(nontrivial=n > 200, labels=sorted(labels), desc="%s n=%d" % (where, n))


def ctor_items(tier, seed):
    items = []
    for idx in range(len(CCAT)):
        for li in ((2, 7) if tier != "thorough" else (0, 1, 2, 3, 5, 7, 8)):
            s_ = (idx * 19 + li * 5 + seed) % 991
            items.append(dict(entry=idx, len=li, a=(s_ + 1) % 17, b=(s_ * 3) % 23,
                              sched=dict(cuts=[(s_ * 977 + 13000 * q) % 65537 for q in range(1 + s_ % 5)], order_salt=s_ + 1, tid_salt=s_ + 2, mode=s_ % 2, workers=s_ % 6)))
    return items


# ------------------------------------------------------------------------------------------------------
# reflected operators of scalar classes: `FloatArray * V3f`, `V3f * FloatArray`, `V3fArray * Quatf` ... are answered by
# the SCALAR class's __mul__/__rmul__ (the array class returns NotImplemented), so they are not methods of any array
# class and do not go through the vectorisation machinery; catalogued separately through the operator itself.
import operator as _operator
BCAT = json.load(open(os.path.join(os.path.dirname(os.path.abspath(__file__)), "c20_catalogue_binop.json")))
_BOPS = {"add": _operator.add, "sub": _operator.sub, "mul": _operator.mul, "truediv": _operator.truediv}


def interp_binop(p):
    e = BCAT[p["entry"] % len(BCAT)]
    n = LENGTHS[p["len"] % len(LENGTHS)]
    a, b = p["a"], p["b"]
    layout = p["layout"] % 3   # the array operand: plain, masked reference, strided member view
    op = _BOPS[e["op"]]
    where = "%s %s %s (array %s) n=%d" % (e["cls"], e["op"], e["elem"][:-5], ("plain", "masked", "strided")[layout], n)
    labels = set([("array_plain", "array_masked", "array_strided")[layout], e["side"]])

    def run():
        arr, keep = build_array(e["cls"], n, a, b, signed=True, masked=(layout == 1), strided=(layout == 2))
        elem = ARR[e["elem"]]["mk"](1 + (a + b) % 5)
        elems = [clone(arr[i]) if ARR[e["cls"]]["base"] == "obj" else arr[i] for i in range(n)]
        before = snapshot(arr)
        r = op(arr, elem) if e["side"] == "array_left" else op(elem, arr)
        return r, arr, elem, elems, before, keep
    POOL.remove()
    try:
        r0, arr0, elem0, elems0, before0, keep0 = run()
    except Exception as ex:
        raise Violation("catalogue/entry-raises", "%s raised %r (it did not on the unchanged tree)" % (where, ex))
    if not is_array(r0) or type(r0).__name__ != e["result_class"] or len(r0) != n:
        raise Violation("result/length", "%s returned %s instead of a %s of length %d" % (where, type(r0).__name__, e["result_class"], n))
    c0 = snapshot(r0)
    if snapshot(arr0) != before0:
        raise Violation("binop/operand-modified", "%s changed its array operand" % where)
    sched = make_schedule(p["sched"], n)
    POOL.install(sched["workers"])
    POOL.schedule(sched["cuts"], sched["order"], sched["tids"], sched["mode"])
    try:
        r1 = run()[0]
    finally:
        POOL.remove()
    if snapshot(r1) != c0:
        raise Violation("schedule/result-depends-on-partition", "%s differs under schedule %r" % (where, sched))
    for i in (range(n) if n <= 64 else sorted(set([0, 1, n - 1, n // 2] + [(13 * q + a) % n for q in range(30)]))):
        exp = op(elems0[i], elem0) if e["side"] == "array_left" else op(elem0, elems0[i])
        if c0[i] != canon_elem(exp):
            raise Violation("scalar/element-differs", "%s: element %d is %s, the scalar operation gives %s" % (where, i, c0[i], canon_elem(exp)))
    labels.add("scalar_oracle_exact")
    return dict(nontrivial=n > 2, labels=sorted(labels), desc=where)


def binop_items(tier, seed):
    items = []
    for idx in range(len(BCAT)):
        for li in ((2, 7) if tier != "thorough" else (0, 1, 2, 5, 7, 8)):
            for layout in range(3):
                s_ = (idx * 23 + li * 7 + layout * 3 + seed) % 997
                items.append(dict(entry=idx, len=li, layout=layout, a=(s_ + 1) % 17, b=(s_ * 3) % 23,
                                  sched=dict(cuts=[(s_ * 977 + 13000 * q) % 65537 for q in range(1 + s_ % 5)], order_salt=s_ + 1, tid_salt=s_ + 2, mode=s_ % 2, workers=s_ % 6)))
    return items


# ------------------------------------------------------------------------------------------------------
# scalar bindings: wherever a scalar class accepts a TUPLE in place of an object of its own class (operators,
# comparisons, setValue, the class-level hsv2rgb/rgb2hsv ...), the tuple form must give what the object form gives
# ("the scalar bindings return what the C++ library returns": the object form is the C++ operation)
TUPLE_CLASSES = [n for n in ("V2s", "V2i", "V2f", "V2d", "V3s", "V3i", "V3f", "V3d", "V4s", "V4i", "V4f", "V4d", "Color3f", "Color3c", "Color4f", "Color4c") if hasattr(imath, n)]
_TUPLE_SKIP = {"__init__", "__new__", "__class__", "__reduce__", "__reduce_ex__", "__setattr__", "__delattr__", "__getattribute__", "__init_subclass__", "__subclasshook__", "__dir__",
               "__sizeof__", "__format__", "__getitem__", "__setitem__", "__hash__", "__repr__", "__str__", "__doc__", "__module__", "__dict__", "__weakref__", "__instance_size__",
               "__len__", "__copy__", "__deepcopy__", "__getstate__"}


def interp_tuple(p):
    kn = TUPLE_CLASSES[p["cls"] % len(TUPLE_CLASSES)]
    K = getattr(imath, kn)
    n = int([ch for ch in kn if ch.isdigit()][0])
    a, b = p["a"], p["b"]
    isf = kn.endswith(("f", "d"))
    col = kn.startswith("Color")
    def vals(seed, distinct):
        out = []
        for i in range(n):
            k = 2 + (seed * (i + 2) + 3 * i * distinct) % 9   # >= 2: relation 3 subtracts 1 and integer divisors must stay non-zero
            out.append((k * 0.125 if col else k * 0.25 + 0.0625 * i) if isf else k)
        return out
    va = vals(a, 1)
    vb = vals(b + (0 if p["relation"] == 0 else 1), 2)
    if p["relation"] == 1:      # b >= a component-wise, equal in all but the last component
        vb = list(va[:-1]) + [va[-1] + (0.25 if isf else 1)]
    elif p["relation"] == 2:    # equal
        vb = list(va)
    elif p["relation"] == 3:    # equal in all but the last component, which is smaller
        vb = list(va[:-1]) + [va[-1] - (0.0625 if isf else 1)]
    labels = set([kn, "relation_%d" % p["relation"]])
    tried = 0
    for m in sorted(set(dir(K))):
        if m in _TUPLE_SKIP:
            continue
        # binary: a.m(b) against a.m(tuple(b))
        try:
            oa, ob = K(*va), K(*vb)
            f = getattr(oa, m)
            if callable(f):
                ro = f(ob)
                oa2 = K(*va)
                rt = getattr(oa2, m)(tuple(vb))
                if ro is not NotImplemented and rt is not NotImplemented:
                    tried += 1
                    labels.add("binary")
                    if canon_elem(ro) != canon_elem(rt) or canon_elem(oa) != canon_elem(oa2):
                        raise Violation("tuple-form/differs-from-object-form", "%s%r.%s(%s%r) = %s (object afterwards %s) but with the tuple %r: %s (object afterwards %s)" % (kn, tuple(va), m, kn, tuple(vb), canon_elem(ro), canon_elem(oa), tuple(vb), canon_elem(rt), canon_elem(oa2)))
        except Violation:
            raise
        except Exception:
            pass
        # unary through the class, with a tuple in place of the object: K.m(tuple(a)) against K(*a).m()
        try:
            oa = K(*va)
            f = getattr(oa, m)
            if callable(f):
                ro = f()
                rt = getattr(K, m)(tuple(va))
                tried += 1
                labels.add("unary_through_class")
                if canon_elem(ro) != canon_elem(rt):
                    raise Violation("tuple-form/differs-from-object-form", "%s%r.%s() = %s but %s.%s(%r) = %s" % (kn, tuple(va), m, canon_elem(ro), kn, m, tuple(va), canon_elem(rt)))
        except Violation:
            raise
        except Exception:
            pass
    if tried:
        labels.add("some_tuple_form_exists")
    return dict(nontrivial=tried > 0, labels=sorted(labels), desc="%s a=%r b=%r relation %d: %d tuple forms compared" % (kn, tuple(va), tuple(vb), p["relation"], tried))


def tuple_items(tier, seed):
    items = []
    for ci in range(len(TUPLE_CLASSES)):
        for rel in range(4):
            for r in range(2 if tier != "thorough" else 12):
                s_ = (ci * 17 + rel * 5 + r * 11 + seed) % 101
                items.append(dict(cls=ci, relation=rel, a=1 + s_ % 13, b=2 + (s_ * 3) % 11))
    return items


def race_items(tier, seed):
    """every catalogue entry and array constructor once (thorough: 3 schedules), above the dispatch threshold, under a
    truly concurrent schedule with >= 3 worker threads and >= 4 chunks; argument values repeat with period 9"""
    reps = 3 if tier == "thorough" else 1
    items = []
    for idx in range(len(CAT)):
        for r in range(reps):
            s = (idx * 29 + r * 101 + seed) % 1000
            items.append(dict(entry=idx, len=7 if tier != "thorough" else 7 + (r + idx) % 2, a=(s + 1) % 17, b=(s * 3) % 23, self_masked=(s % 3 == 0), strided=(s // 3) % 4, mismatch=0,
                              sched=dict(cuts=[(s * 977 + 9000 + 13000 * q) % 65537 for q in range(3 + s % 4)], order_salt=s + 1, tid_salt=s + 2, mode=1, workers=2 + s % 4)))
    return items


RACE_PASS = bool(os.environ.get("VP_RACE_PASS"))
GROUPS = [] if RACE_PASS else [
    Group("catalogue_sweep", None, interp, 0, 0,
          "complete sweep: every one of the %d catalogued vectorised entry points (array methods/operators x argument-kind combinations array/scalar/masked, module functions, scalar-object methods taking arrays) x lengths {2, 201, 257} (thorough: {0,2,199,201,257,1000}) x generated schedules; one length per entry (thorough: two) runs with the subject and/or the array arguments laid out as member views of aggregate arrays (V3fArray.y, C3cArray.g, Box3fArray.max: stride 3 or 2), where other members of the parent's elements must stay untouched; non-trivial = length > 200, dispatched to the pool, >= 2 non-empty chunks executed out of order" % len(CAT),
          required_labels=["dispatched", "concurrent", "scalar_oracle_exact", "mismatch_raises", "method", "func", "scalar", "inplace", "masked_subject", "masked_subject_unmasked_length_rhs", "masked_subject_masked_rhs_unmasked_length", "scalar_fold_oracle", "strided_subject", "strided_argument", "argument_is_member_view_of_subject", "keyword_call", "mismatch_empty_raises"], items=sweep_items),
    Group("schedules", PROG, interp, 2400, 40000,
          "random (entry, length in {0,1,2,199,200,201,202,257,1000}, data seeds, masked self, schedule: up to 8 chunks incl. empty ones, permutation, worker ids, serial/concurrent); non-trivial as above",
          required_labels=["dispatched"]),
    Group("array_ctors", None, interp_ctor, 0, 0,
          "complete sweep of the %d array constructors that take other arrays (element-type conversions V3fArray(V3dArray) ..., M33/M44 arrays from 9/16 component arrays) x lengths {2, 257} x a generated schedule: element i equals the scalar constructor applied to the i-th elements, result independent of the schedule, each argument, and each self-consistent group of arguments (suffixes, prefixes, rows and columns of matrix components), given another length (n+1.., n-1, 0) must raise; non-trivial = length above the dispatch threshold" % len(CCAT),
          required_labels=["scalar_oracle_exact", "mismatch_raises", "group_mismatch_raises", "k16", "k1"], items=ctor_items),
    Group("grid_ops", None, interp_grid, 0, 0,
          "complete sweep of the %d catalogued element-wise operators of FixedArray2D (Int/Float/Double/Color4f/Color4c) and FixedMatrix (Int/Float/Double) x argument kinds (none / same-shape container / scalar) on generated shapes up to 6x5: every element compared with the scalar operation (C semantics for numbers, the scalar binding for colours), operands untouched, other-shape operands must raise; non-trivial = more than one element" % len(GCAT),
          required_labels=["scalar_oracle_exact", "mismatch_raises", "inplace_operator", "array"], items=grid_items),
    Group("reflected_ops", None, interp_binop, 0, 0,
          "complete sweep of the %d array-valued binary expressions that are answered by a SCALAR class's reflected operator (FloatArray * V3f, V3f * FloatArray, V3fArray * Quatf ...: the array class returns NotImplemented, so no array method or module function covers them) x lengths {2, 257} (thorough: {0,1,2,201,257,1000}) x array operand laid out plainly / as a masked reference / as a strided member view: every element equals the scalar operation on that element, the operand is untouched, the result does not depend on an installed pool; non-trivial = more than 2 elements" % len(BCAT),
          required_labels=["scalar_oracle_exact", "array_plain", "array_masked", "array_strided", "array_left", "array_right"], items=binop_items),
    Group("tuple_forms", None, interp_tuple, 0, 0,
          "scalar bindings of %d vector / colour classes: every method or operator that accepts a tuple in place of an object of the class (binary: a.m(b) vs a.m(tuple(b)); through the class: K.m(tuple(a)) vs K(*a).m()) on generated component values in four relations (generic, >= with equality in all but the last component, equal, <= likewise) must return what the object form returns and leave the subject in the same state; non-trivial = at least one tuple form exists for the class" % len(TUPLE_CLASSES),
          required_labels=["binary", "unary_through_class", "some_tuple_form_exists", "relation_1", "relation_3"], items=tuple_items),
]
if RACE_PASS:
    GROUPS = [
        Group("concurrent_tsan", None, interp, 0, 0,
              "race pass: the module and the pool shim are built with -fsanitize=thread; every one of the %d catalogued entry points runs once on 257 elements (thorough: 3 times, on 257 or 1000 elements) under a truly concurrent schedule (3..5 worker threads, 4..7 chunks, chunks of one worker in sequence); ThreadSanitizer halts the interpreter on the first data race between sub-ranges (reported as a violation with the in-flight program), and the result is still compared with the no-pool result and the scalar oracle; non-trivial = dispatched to the pool with >= 2 non-empty chunks" % len(CAT),
              required_labels=["dispatched", "concurrent"], items=race_items),
    ]

if __name__ == "__main__":
    sys.exit(Runner("C20", GROUPS).main())
