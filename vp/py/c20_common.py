"""Shared machinery for C20: value builders, argument kinds, calling vectorised entry points, canonical results,
the ctypes interface to the harness-owned WorkerPool (poolshim)."""
import ctypes, os, re, operator, math
import imath

# ------------------------------------------------------------------------------------------------------
# array classes and element builders (k is a small non-zero integer)


def _v(cls, n):
    return lambda k: cls(*[k + i * (1 if k > 0 else -1) for i in range(n)])


def _mat(cls, n):
    def mk(k):
        vals = []
        for r in range(n):
            for c in range(n):
                # diagonally dominant for every k (incl. negative): always invertible
                vals.append(float(abs(k) + r + 2) if r == c else float(((r * n + c + k) % 3) - 1) * 0.25)
        return cls(*vals)
    return mk


def _box(bcls, vcls, n):
    return lambda k: bcls(vcls(*[-abs(k) - i for i in range(n)]), vcls(*[abs(k) + 1 + i for i in range(n)]))


def _quat(cls):
    return lambda k: cls(float(k), float(k + 1), float(-k), float(k + 2))


def _euler(cls):
    return lambda k: cls(0.1 * k, 0.2 * k, -0.15 * k)


ARR = {}   # class name -> dict(T=class, mk=..., elem=scalar class name or None, base='int'|'float'|'bool'|'obj')


def _add(name, mk, base, elemcls=None):
    if hasattr(imath, name):
        ARR[name] = dict(name=name, T=getattr(imath, name), mk=mk, base=base, elem=elemcls)


_add("IntArray", lambda k: int(k), "int")
_add("ShortArray", lambda k: int(k), "int")
_add("SignedCharArray", lambda k: int(k), "int")
_add("UnsignedCharArray", lambda k: abs(int(k)), "uint")
_add("UnsignedShortArray", lambda k: abs(int(k)), "uint")
_add("UnsignedIntArray", lambda k: abs(int(k)), "uint")
# |value| >= 1: array types convert implicitly (FloatArray -> IntArray truncates), and a zero integer divisor
# is outside the domain of the scalar operation (SIGFPE)
_add("FloatArray", lambda k: k * 0.5 + (1.0 if k > 0 else -1.0), "float")
_add("DoubleArray", lambda k: k * 0.25 + (1.0 if k > 0 else -1.0), "float")
_add("BoolArray", lambda k: bool(k % 2), "bool")
for _s in ("s", "i", "i64", "f", "d"):
    for _n in (2, 3, 4):
        _vn = "V%d%s" % (_n, _s)
        if hasattr(imath, _vn):
            _add(_vn + "Array", _v(getattr(imath, _vn), _n), "obj", _vn)
_add("C3fArray", _v(imath.Color3f, 3), "obj", "Color3f")
_add("C4fArray", _v(imath.Color4f, 4), "obj", "Color4f")
_add("C3cArray", lambda k: imath.Color3c(abs(k), abs(k) + 1, abs(k) + 2), "obj", "Color3c")
_add("C4cArray", lambda k: imath.Color4c(abs(k), abs(k) + 1, abs(k) + 2, abs(k) + 3), "obj", "Color4c")
_add("QuatfArray", _quat(imath.Quatf), "obj", "Quatf")
_add("QuatdArray", _quat(imath.Quatd), "obj", "Quatd")
for _n in (2, 3, 4):
    for _s in ("f", "d"):
        _mn = "M%d%d%s" % (_n, _n, _s)
        _add(_mn + "Array", _mat(getattr(imath, _mn), _n), "obj", _mn)
for _s in ("s", "i", "i64", "f", "d"):
    for _n in (2, 3):
        _bn, _vn = "Box%d%s" % (_n, _s), "V%d%s" % (_n, _s)
        if hasattr(imath, _bn):
            _add(_bn + "Array", _box(getattr(imath, _bn), getattr(imath, _vn), _n), "obj", _bn)
_add("EulerfArray", _euler(imath.Eulerf), "obj", "Eulerf")
_add("EulerdArray", _euler(imath.Eulerd), "obj", "Eulerd")

ARR_NAMES = sorted(ARR)

# "strided" layout: the array is a member view (V3fArray.y, C3cArray.g, Box3fArray.max ...) of an aggregate array, so
# its stride is 3 (2 for box corners) instead of 1; parent element = ctor(filler, value, filler)
STRIDED = {}


def _strided(cls, pcls, member, build, others):
    if hasattr(imath, pcls) and hasattr(imath, cls):
        STRIDED[cls] = dict(P=getattr(imath, pcls), member=member, build=build, others=others)


for _s, _cls in (("f", "FloatArray"), ("d", "DoubleArray"), ("i", "IntArray"), ("s", "ShortArray")):
    _vc = getattr(imath, "V3" + _s, None)
    if _vc is not None:
        _strided(_cls, "V3%sArray" % _s, "y", (lambda vc: (lambda v, f: vc(f, v, f + 1)))(_vc), lambda e: (e.x, e.z))
_strided("UnsignedCharArray", "C3cArray", "g", lambda v, f: imath.Color3c(abs(int(f)) % 200, v, (abs(int(f)) + 1) % 200), lambda e: (e.r, e.b))
for _s in ("s", "i", "f", "d"):
    for _n in (2, 3):
        _bc, _vc = getattr(imath, "Box%d%s" % (_n, _s), None), getattr(imath, "V%d%s" % (_n, _s), None)
        if _bc is not None and _vc is not None:
            _strided("V%d%sArray" % (_n, _s), "Box%d%sArray" % (_n, _s), "max",
                     (lambda bc, vc, nn: (lambda v, f: bc(vc(*([int(f)] * nn)), v)))(_bc, _vc, _n), lambda e: repr(e.min()))


def is_array(x):
    return type(x).__name__ in ARR


def kseq(n, a, b, signed=True):
    """deterministic, non-zero small integers k_i (variety controlled by a, b)"""
    out = []
    for i in range(n):
        k = 1 + ((i * (2 * a + 1) + b) % 9)
        if signed and ((i + b) % 4 == 3):
            k = -k
        out.append(k)
    return out


def build_array(cls, n, a, b, signed=True, masked=False, ramp=False, strided=False):
    """array of class `cls` with n elements; masked=True builds it as a masked reference into a 2n-element array;
    strided=True (classes in STRIDED) builds it as a member view of an aggregate array (keepalive = the parent)"""
    t = ARR[cls]
    if t["base"] == "uint":
        signed = False
    ks = kseq(n, a, b, signed)
    if ramp:
        # strictly increasing values: the last element is the unique maximum, the first the unique minimum
        ks = [i + 1 + (a % 3) for i in range(n)]
    if cls == "BoolArray" and not signed:
        ks = [1] * n  # as an argument: all true (never a zero divisor after implicit conversion)
    if strided and not masked and cls in STRIDED:
        sp = STRIDED[cls]
        parent = sp["P"](n)
        filler = kseq(n, a + 3, b + 5, signed)
        for i in range(n):
            parent[i] = sp["build"](t["mk"](ks[i]), filler[i])
        return getattr(parent, sp["member"]), parent
    if not masked:
        arr = t["T"](n)
        for i in range(n):
            arr[i] = t["mk"](ks[i])
        return arr, None
    base = t["T"](2 * n)
    filler = kseq(n, a + 3, b + 5, signed)
    for i in range(n):
        base[2 * i] = t["mk"](ks[i])
        base[2 * i + 1] = t["mk"](filler[i])
    # the mask itself comes in three layouts: a plain IntArray, a masked reference (every second element of a 4n
    # array whose other elements hold the opposite flag), a strided member view (V3iArray.y)
    layout = (a + b) % 3
    if layout == 1:
        mb = imath.IntArray(4 * n)
        pick = imath.IntArray(4 * n)
        for q in range(2 * n):
            mb[2 * q] = 1 - q % 2
            mb[2 * q + 1] = q % 2
            pick[2 * q] = 1
        m = mb[pick]
    elif layout == 2 and hasattr(imath, "V3iArray"):
        par = imath.V3iArray(2 * n)
        for q in range(2 * n):
            par[q] = imath.V3i(q % 2, 1 - q % 2, 7)
        m = par.y
    else:
        m = imath.IntArray(2 * n)
        for i in range(n):
            m[2 * i] = 1
            m[2 * i + 1] = 0
    return base[m], base


def build_arg(kind, n, a, b, ramp=False, strided=False):
    """kind: 'arr:<Class>' | 'mask:<Class>' | 'elem:<Class>' | 'py:float' | 'py:int' -> (value, keepalive)"""
    tag, _, what = kind.partition(":")
    if tag == "arr":
        return build_array(what, n, a, b, signed=False, ramp=ramp, strided=strided)
    if tag == "mask":
        return build_array(what, n, a, b, signed=False, masked=True)
    if tag == "elem":
        t = ARR[what]
        if what == "BoolArray":
            return True, None
        return t["mk"](1 + (a + b) % 5), None
    if tag == "py":
        if what == "float":
            return 1.5 + ((a + b) % 4) * 0.25, None  # >= 1 so that an implicit float->int conversion never yields a zero divisor
        return 1 + (a + b) % 3, None
    raise ValueError(kind)


NUM_RE = re.compile(r"[-+]?(?:\d+\.?\d*(?:[eE][-+]?\d+)?|nan|inf)")


def canon_elem(x):
    return repr(x)


def canon(x):
    if is_array(x) or type(x).__name__.endswith("Array"):
        return [canon_elem(x[i]) for i in range(len(x))]
    return canon_elem(x)


def approx_equal(a, b, rel=1e-5):
    """compare two canonical strings: identical text apart from numbers, numbers within rel"""
    if a == b:
        return True
    na, nb = NUM_RE.findall(a), NUM_RE.findall(b)
    if NUM_RE.sub("#", a) != NUM_RE.sub("#", b) or len(na) != len(nb):
        return False
    for x, y in zip(na, nb):
        fx, fy = float(x), float(y)
        if fx != fx and fy != fy:
            continue
        if fx == fy:
            continue
        if abs(fx - fy) > rel * max(abs(fx), abs(fy), 1e-30) and abs(fx - fy) > 1e-30:
            return False
    return True


DUNDER_SCALAR = {"__div__": "__truediv__", "__idiv__": "__itruediv__", "__rdiv__": "__rtruediv__"}


def c_int_div(a, b):
    q = abs(a) // abs(b)
    return q if (a < 0) == (b < 0) else -q


def numeric_scalar_oracle(method, base):
    """explicit element-wise semantics for arrays of built-in numeric types (C semantics)"""
    tbl = {
        "__add__": operator.add, "__sub__": operator.sub, "__mul__": operator.mul, "__neg__": operator.neg,
        "__radd__": lambda a, b: b + a, "__rsub__": lambda a, b: b - a, "__rmul__": lambda a, b: b * a,
        "__iadd__": operator.add, "__isub__": operator.sub, "__imul__": operator.mul,
        "__eq__": lambda a, b: int(a == b), "__ne__": lambda a, b: int(a != b), "__lt__": lambda a, b: int(a < b),
        "__le__": lambda a, b: int(a <= b), "__gt__": lambda a, b: int(a > b), "__ge__": lambda a, b: int(a >= b),
    }
    if base == "float":
        tbl.update({"__truediv__": operator.truediv, "__div__": operator.truediv, "__itruediv__": operator.truediv, "__idiv__": operator.truediv})
    if base == "int":
        tbl.update({"__truediv__": c_int_div, "__div__": c_int_div, "__itruediv__": c_int_div, "__idiv__": c_int_div,
                    "__mod__": lambda a, b: a - b * c_int_div(a, b), "__imod__": lambda a, b: a - b * c_int_div(a, b)})
    return tbl.get(method)


# ------------------------------------------------------------------------------------------------------
# harness-owned pool
class Pool:
    def __init__(self):
        path = os.environ.get("VP_POOLSHIM")
        self.lib = ctypes.CDLL(path, mode=ctypes.RTLD_GLOBAL) if path else None
        if self.lib:
            self.lib.vp_pool_set_schedule.argtypes = [ctypes.c_uint, ctypes.POINTER(ctypes.c_uint32), ctypes.POINTER(ctypes.c_uint32), ctypes.POINTER(ctypes.c_uint32), ctypes.c_int]
            self.lib.vp_pool_stats.argtypes = [ctypes.POINTER(ctypes.c_uint64)]

    def install(self, nworkers):
        self.lib.vp_pool_install(ctypes.c_uint(nworkers))

    def remove(self):
        self.lib.vp_pool_remove()

    def schedule(self, cuts, order, tids, mode):
        n = len(order)
        A = ctypes.c_uint32 * (n + 1)
        B = ctypes.c_uint32 * max(n, 1)
        self.lib.vp_pool_set_schedule(n, A(*cuts), B(*order), B(*tids), mode)

    def stats(self):
        out = (ctypes.c_uint64 * 4)()
        self.lib.vp_pool_stats(out)
        return list(out)

    def reset_stats(self):
        self.lib.vp_pool_reset_stats()


def resolve_subject(entry):
    """entry['subject'] is 'method:<ArrayClass>' | 'func' | 'scalar:<ScalarClass>'"""
    return entry["subject"].partition(":")


def scalar_instance(clsname, a, b):
    """construct a scalar-class subject (Box, FrustumTest, matrices ...) deterministically"""
    k = 1 + (a + b) % 4
    if clsname.startswith("Box"):
        return getattr(imath, clsname)()
    if clsname.startswith("FrustumTest"):
        f = (imath.Frustumf if clsname.endswith("f") else imath.Frustumd)(0.5, 50.0, -1.0, 1.0, 1.0, -1.0, False)
        m = (imath.M44f if clsname.endswith("f") else imath.M44d)()
        return getattr(imath, clsname)(f, m)
    if clsname.startswith("M44") or clsname.startswith("M33") or clsname.startswith("M22"):
        n = int(clsname[1])
        return _mat(getattr(imath, clsname), n)(k)
    return getattr(imath, clsname)()


def snapshot(x):
    try:
        return canon(x)
    except Exception:
        return None



def scalar_expected(entry, self_elems, arg_vals, arg_kinds, i):
    """element-wise expectation through the scalar bindings (or explicit numeric semantics); returns canonical string or raises"""
    tag, _, what = entry["subject"].partition(":")
    m = entry["name"]
    argi = []
    for v, k in zip(arg_vals, arg_kinds):
        argi.append(v[i] if k.startswith(("arr:", "mask:")) else v)
    if tag == "method":
        base = ARR[what]["base"]
        s = self_elems[i]
        if base in ("int", "uint", "float", "bool"):
            f = numeric_scalar_oracle(m, "int" if base in ("int", "uint") else base)
            if f is None:
                raise LookupError("no numeric oracle")
            if any(type(x).__name__ in ARR or hasattr(x, "__len__") for x in argi):
                raise LookupError("non-scalar arg")
            r = f(s, *argi)
            et = ARR[entry["result_class"]]["base"] if entry.get("result_class") in ARR else base
            if et in ("int", "uint"):
                r = int(r)
            elif et == "float":
                r = float(r)
            return repr(r)
        mm = DUNDER_SCALAR.get(m, m)
        if mm.startswith("__i") and mm not in ("__invert__",):
            # in-place scalar operator: apply to a copy
            sc = clone(s)
            r = getattr(sc, mm)(*argi)
            return repr(sc if r is None else r)
        fn = getattr(s, mm)
        if entry["kind"] == "inplace":
            sc = clone(s)
            getattr(sc, mm)(*argi)
            return repr(sc)
        return repr(fn(*argi))
    if tag == "func":
        return repr(getattr(imath, m)(*argi))
    if tag == "scalar" and entry["kind"] == "array":
        subj = scalar_instance(what, *CTX["ab"])
        r = getattr(subj, m)(*argi)
        if isinstance(r, bool):
            r = int(r)
        return repr(r)
    raise LookupError("no scalar form")


CTX = {"ab": (0, 0)}


def clone(x):
    """independent copy of an element object (elements returned by a[i] may alias the array)"""
    try:
        return type(x)(x)
    except Exception:
        pass
    try:
        import copy
        return copy.deepcopy(x)
    except Exception:
        return x


def parent_others(cls, parent):
    sp = STRIDED[cls]
    return [sp["others"](parent[i]) for i in range(len(parent))]


MEMBER_NAMES = ("x", "y", "z", "w", "r", "g", "b", "a", "min", "max")


def member_views(subj, cls):
    """member accessors of the subject array whose array class is `cls` (V3fArray.x -> FloatArray, Box3fArray.max ->
    V3fArray, QuatfArray.r -> FloatArray ...)"""
    out = []
    for nm in MEMBER_NAMES:
        try:
            v = getattr(subj, nm)
        except Exception:
            continue
        if not callable(v) and type(v).__name__ == cls:
            out.append(nm)
    return out


def evaluate(entry, n, a, b, self_masked=False, rhs_full=False, self_strided=False, arg_strided=False, arg_member=False, member_pick=None):
    """rhs_full: (masked subject, in-place operator) give the array argument the UNMASKED length of the subject's
    base array (2n): element i of the view then pairs with argument[raw index of i] = argument[2i]"""
    CTX["ab"] = (a, b)
    """run one catalogued entry on generated data; returns dict(result=canonical list, self_after=..., expected=[...] or None)"""
    tag, _, what = entry["subject"].partition(":")
    keep = []
    args, kinds = [], entry["args"]
    for j, k in enumerate(kinds):
        v, ka = build_arg(k, 2 * n if (rhs_full and k.startswith(("arr:", "mask:"))) else n, a + j + 1, b + 2 * j, ramp=(entry["kind"] == "subject-inplace"), strided=arg_strided)
        args.append(v)
        keep.append(ka)
    strided_parent = None
    if tag == "method":
        subj, ka = build_array(what, n, a, b, signed=True, masked=self_masked, strided=self_strided)
        keep.append(ka)
        if self_strided and not self_masked and what in STRIDED:
            strided_parent = ka
        self_elems = [clone(subj[i]) if ARR[what]["base"] == "obj" else subj[i] for i in range(n)]
        fn = getattr(subj, entry["name"])
    elif tag == "func":
        subj, self_elems = None, None
        fn = getattr(imath, entry["name"])
    else:
        subj = scalar_instance(what, a, b)
        self_elems = None
        fn = getattr(subj, entry["name"])
    member_used = None
    if arg_member and tag == "method" and not self_masked and not self_strided:
        # an array argument that is a MEMBER VIEW OF THE SUBJECT (q.setAxisAngle(axis, q.r), v *= v.x): the two
        # arrays overlap element by element; the result must be what a copy of that member would give
        for j, k in enumerate(kinds):
            if k.startswith("arr:"):
                cands = member_views(subj, k[4:])
                if cands:
                    member_used = cands[((a + b + j) if member_pick is None else member_pick) % len(cands)]
                    args[j] = getattr(subj, member_used)
                    break
    arg_elems = []
    for v, k in zip(args, kinds):
        if k.startswith(("arr:", "mask:")):
            cls = k.partition(":")[2]
            step = 2 if (rhs_full and k.startswith(("arr:", "mask:"))) else 1
            arg_elems.append([clone(v[step * i]) if ARR[cls]["base"] == "obj" else v[step * i] for i in range(n)])
        else:
            arg_elems.append(v)
    before = snapshot(subj) if subj is not None else None
    others_before = parent_others(what, strided_parent) if strided_parent is not None else None
    r = fn(*args)
    out = dict(result=snapshot(r) if r is not None and type(r).__name__.endswith("Array") else None,
               self_after=snapshot(subj) if subj is not None else None, before=before, raw=r)
    out["member_used"] = member_used
    if strided_parent is not None:
        out["strided"] = True
        out["neighbours_intact"] = parent_others(what, strided_parent) == others_before
    return out, self_elems, arg_elems




# ------------------------------------------------------------------------------------------------------
# 2-D containers (FixedArray2D, FixedMatrix): element-wise operators, not task-dispatched but exported
# array-valued operations all the same
GRID = {}
for _n, _base, _mk in (("IntArray2D", "int", lambda k: int(k)), ("FloatArray2D", "float", lambda k: k * 0.5 + (1.0 if k > 0 else -1.0)),
                       ("DoubleArray2D", "float", lambda k: k * 0.25 + (1.0 if k > 0 else -1.0)),
                       ("Color4fArray2D", "obj", _v(imath.Color4f, 4)), ("Color4cArray2D", "obj", lambda k: imath.Color4c(abs(k), abs(k) + 1, abs(k) + 2, abs(k) + 3)),
                       ("IntMatrix", "int", lambda k: int(k)), ("FloatMatrix", "float", lambda k: k * 0.5 + (1.0 if k > 0 else -1.0)),
                       ("DoubleMatrix", "float", lambda k: k * 0.25 + (1.0 if k > 0 else -1.0))):
    if hasattr(imath, _n):
        GRID[_n] = dict(name=_n, T=getattr(imath, _n), base=_base, mk=_mk, matrix=_n.endswith("Matrix"))


def grid_build(cls, nx, ny, a, b, signed=True):
    g = GRID[cls]
    obj = g["T"](nx, ny)
    ks = kseq(nx * ny, a, b, signed)
    vals = {}
    q = 0
    for j in range(ny):
        for i in range(nx):
            v = g["mk"](ks[q])
            q += 1
            if g["matrix"]:
                obj[i][j] = v     # matrix: (rows=nx, cols=ny), m[row][col]
            else:
                obj[i, j] = v
            vals[(i, j)] = v
    return obj, vals


def grid_shape(cls, obj):
    if GRID[cls]["matrix"]:
        return (obj.rows(), obj.columns())
    return tuple(obj.size())


def grid_get(cls, obj, i, j):
    return obj[i][j] if GRID[cls]["matrix"] else obj.item(i, j)


def grid_canon(cls, obj):
    nx, ny = grid_shape(cls, obj)
    return {(i, j): repr(grid_get(cls, obj, i, j)) for i in range(nx) for j in range(ny)}


def grid_arg(kind, cls, nx, ny, a, b):
    if kind == "same":
        return grid_build(cls, nx, ny, a, b, signed=False)
    if kind == "py:int":
        return 1 + (a + b) % 3, None
    if kind == "py:float":
        return 1.5 + ((a + b) % 4) * 0.25, None
    if kind == "elem":
        return GRID[cls]["mk"](1 + (a + b) % 5), None
    raise ValueError(kind)


def grid_expected(entry, self_vals, arg, arg_vals, ij):
    cls = entry["cls"]
    g = GRID[cls]
    m = entry["name"]
    x = self_vals[ij]
    y = arg_vals[ij] if arg_vals is not None else arg
    args = [] if entry["arg"] == "none" else [y]
    if g["base"] in ("int", "float"):
        f = numeric_scalar_oracle(m, g["base"])
        if f is None:
            raise LookupError("no numeric oracle")
        r = f(x, *args)
        et = entry.get("result_base", g["base"])
        return repr(int(r) if et == "int" else float(r))
    mm = DUNDER_SCALAR.get(m, m)
    sc = clone(x)
    r = getattr(sc, mm)(*args)
    return repr(sc if (r is None or mm.startswith("__i")) else r)
