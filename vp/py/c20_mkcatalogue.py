#!/usr/bin/env python3
"""Build py/c20_catalogue.json: the frozen list of vectorised entry points of the imath module
(array methods/operators, module functions, scalar-object methods taking arrays), discovered by
introspection on the UNCHANGED tree.  Run by hand; the result is reviewed and committed.  At check time a
catalogued entry that has disappeared or now raises is a failure, not a silent skip."""
import itertools, json, sys, os
import imath
from c20_common import *

N = 5
SKIP_METHODS = {"__getitem__", "__setitem__", "__len__", "__init__", "__new__", "__class__", "__copy__", "__deepcopy__", "__reduce__", "__reduce_ex__",
                "__repr__", "__str__", "__hash__", "__dir__", "__sizeof__", "__format__", "__getattribute__", "__setattr__", "__delattr__", "__init_subclass__",
                "__subclasshook__", "__getstate__", "__instance_size__", "__weakref__", "__dict__", "__module__", "__doc__",
                "makeReadOnly", "writable", "ifelse", "__iter__", "__contains__"}
FUNC_SKIP = {n for n in dir(imath) if n.endswith("FromBuffer")} | {"procrustesRotationAndTranslation", "computeBoundingBox", "hollowSphereRand", "solidSphereRand", "rangeX", "rangeY"}


def try_call(fn, args):
    try:
        return True, fn(*args)
    except BaseException as e:  # noqa
        if isinstance(e, (KeyboardInterrupt, SystemExit)):
            raise
        return False, e


def classify(result, n, before, after):
    if result is not None and type(result).__name__.endswith("Array") and hasattr(result, "__len__") and len(result) == n and type(result).__name__ in ARR:
        return "array"
    if before is not None and after is not None and before != after:
        return "inplace"
    return None


def doc_signatures(fn, name):
    """argument-kind tuples of the overloads listed in a Boost.Python docstring (self dropped)"""
    out = []
    doc = getattr(fn, "__doc__", None) or ""
    for line in doc.splitlines():
        mm = re.match(r"\s*%s\(\s*(.*)\)\s*->" % re.escape(name), line)
        if not mm:
            continue
        parts = [a.strip() for a in mm.group(1).replace("[", "").replace("]", "").split(",") if a.strip()]
        kinds = []
        ok = True
        for a in parts[1:]:   # parts[0] is self
            tm = re.match(r"\(([^)]*)\)", a)
            if not tm:
                ok = False
                break
            tn = tm.group(1).strip()
            if tn in ARR:
                kinds.append("arr:" + tn)
            elif tn + "Array" in ARR:
                kinds.append("elem:" + tn + "Array")
            elif tn == "float":
                kinds.append("py:float")
            elif tn in ("int", "bool"):
                kinds.append("py:int")
            else:
                ok = False
                break
        if ok and 1 <= len(kinds) <= 4 and tuple(kinds) not in out:
            out.append(tuple(kinds))
    return out


def discover():
    entries = []
    arr_kinds = ["arr:" + c for c in ARR_NAMES]
    one_arg = arr_kinds + ["elem:" + c for c in ARR_NAMES] + ["py:float", "py:int"]
    # ---- array methods
    for cls in ARR_NAMES:
        sample, _ = build_array(cls, N, 1, 1)
        for m in sorted(dir(sample)):
            if m in SKIP_METHODS:
                continue
            try:
                attr = getattr(sample, m)
            except Exception:
                continue
            if not callable(attr):
                continue
            sigs = [()] + [(k,) for k in one_arg]
            sigs += [("arr:" + cls, "arr:" + cls), ("arr:" + cls, "py:float"), ("elem:" + cls, "elem:" + cls), ("elem:" + cls, "arr:" + cls), ("arr:" + cls, "elem:" + cls), ("arr:" + cls, "arr:FloatArray"), ("arr:" + cls, "arr:DoubleArray")]
            # every overload the binding documents (Boost.Python docstring): argument types -> argument kinds
            for dsig in doc_signatures(attr, m):
                if dsig not in sigs:
                    sigs.append(dsig)
            for sig in sigs:
                subj, _ka = build_array(cls, N, 2, 3)
                args = [build_arg(k, N, 3 + j, 4 + j)[0] for j, k in enumerate(sig)]
                before = snapshot(subj)
                ok, r = try_call(getattr(subj, m), args)
                if not ok:
                    continue
                kind = classify(r, N, before, snapshot(subj))
                if not kind:
                    continue
                e = dict(subject="method:" + cls, name=m, args=list(sig), kind=kind, result_class=type(r).__name__ if kind == "array" else cls)
                entries.append(e)
                # the masked-argument variant of every array argument
                for j, k in enumerate(sig):
                    if k.startswith("arr:"):
                        sig2 = list(sig)
                        sig2[j] = "mask:" + k[4:]
                        subj2, _k2 = build_array(cls, N, 2, 3)
                        args2 = [build_arg(kk, N, 3 + jj, 4 + jj)[0] for jj, kk in enumerate(sig2)]
                        ok2, r2 = try_call(getattr(subj2, m), args2)
                        if ok2 and classify(r2, N, before, snapshot(subj2)) == kind:
                            entries.append(dict(subject="method:" + cls, name=m, args=sig2, kind=kind, result_class=e["result_class"]))
    # ---- module functions
    fns = [n for n in dir(imath) if callable(getattr(imath, n)) and not isinstance(getattr(imath, n), type) and not n.startswith("_") and n not in FUNC_SKIP]
    for f in fns:
        sigs = [(k,) for k in arr_kinds]
        for c in ARR_NAMES:
            A = "arr:" + c
            for other in (A, "elem:" + c, "py:float", "py:int"):
                sigs.append((A, other))
                if other != A:
                    sigs.append((other, A))
            for o1, o2 in itertools.product((A, "elem:" + c, "py:float"), repeat=2):
                sigs.append((A, o1, o2))
                if o1 != A:
                    sigs.append((o1, A, o2))
                if o2 != A and o1 != A:
                    sigs.append((o1, o2, A))
        seen = set()
        for sig in sigs:
            if sig in seen:
                continue
            seen.add(sig)
            args = [build_arg(k, N, 3 + j, 4 + j)[0] for j, k in enumerate(sig)]
            ok, r = try_call(getattr(imath, f), args)
            if not ok:
                continue
            if classify(r, N, None, None) != "array":
                continue
            entries.append(dict(subject="func", name=f, args=list(sig), kind="array", result_class=type(r).__name__))
            # every masked / direct combination of the array arguments (each is a separate branch of the dispatcher)
            pos = [j for j, k in enumerate(sig) if k.startswith("arr:")]
            for bits in range(1, 1 << len(pos)):
                sig2 = list(sig)
                for q, j in enumerate(pos):
                    if bits >> q & 1:
                        sig2[j] = "mask:" + sig[j][4:]
                args2 = [build_arg(k, N, 3 + j, 4 + j)[0] for j, k in enumerate(sig2)]
                ok2, r2 = try_call(getattr(imath, f), args2)
                if ok2 and classify(r2, N, None, None) == "array":
                    entries.append(dict(subject="func", name=f, args=sig2, kind="array", result_class=type(r2).__name__))
    # ---- scalar-object methods taking an array
    scal = [n for n in dir(imath) if isinstance(getattr(imath, n), type) and not n.endswith(("Array", "Array2D", "Matrix")) and not n.startswith("_")]
    for K in sorted(scal):
        try:
            inst = scalar_instance(K, 1, 1)
        except Exception:
            continue
        for m in sorted(dir(inst)):
            if m.startswith("__") or m in SKIP_METHODS:
                continue
            try:
                if not callable(getattr(inst, m)):
                    continue
            except Exception:
                continue
            for k in arr_kinds:
                try:
                    subj = scalar_instance(K, 1, 1)
                except Exception:
                    break
                arg = build_arg(k, N, 3, 4)[0]
                before = repr(subj)
                ok, r = try_call(getattr(subj, m), [arg])
                if not ok:
                    continue
                kind = None
                if r is not None and type(r).__name__ in ARR and len(r) == N:
                    kind = "array"
                elif repr(subj) != before:
                    kind = "subject-inplace"
                if kind:
                    entries.append(dict(subject="scalar:" + K, name=m, args=[k], kind=kind, result_class=type(r).__name__ if kind == "array" else K))
    return entries


def add_oracles(entries):
    for e in entries:
        rel = "none"
        tag = e["subject"].partition(":")[0]
        if tag in ("method", "func", "scalar") and e["kind"] in ("array", "inplace"):
            verdicts = []
            for (a, b) in ((1, 1), (2, 5), (3, 2), (4, 7), (5, 3), (6, 11), (7, 4), (9, 13), (11, 6), (13, 17), (0, 0), (16, 22)):
                try:
                    out, self_elems, arg_elems = evaluate(e, N + 2, a, b)
                    got = out["result"] if e["kind"] == "array" else out["self_after"]
                    exp = [scalar_expected(e, self_elems, arg_elems, e["args"], i) for i in range(N + 2)]
                except BaseException as ex:  # noqa
                    if isinstance(ex, (KeyboardInterrupt, SystemExit)):
                        raise
                    verdicts.append("none")
                    continue
                if got == exp:
                    verdicts.append("exact")
                elif all(approx_equal(g, x) for g, x in zip(got, exp)):
                    verdicts.append("approx")
                else:
                    verdicts.append("none")
            f32 = any(("Array" in k and (k.endswith(("fArray", "FloatArray")) or k.endswith("cArray"))) for k in e["args"] + [e["subject"]])
            numeric = tag == "func" or (tag == "method" and ARR.get(e["subject"].partition(":")[2], {}).get("base") == "float")
            if all(v == "exact" for v in verdicts) and f32 and numeric:
                rel = "approx"   # the scalar form computes in double where the array computes in float
            elif all(v == "exact" for v in verdicts):
                rel = "exact"
            elif all(v in ("exact", "approx") for v in verdicts):
                rel = "approx"
        e["scalar_oracle"] = rel
        # does the entry also work when the subject itself is a masked reference?
        if tag == "method":
            try:
                out0, _s, _a = evaluate(e, N + 2, 3, 4, False)
                out1, _s, _a = evaluate(e, N + 2, 3, 4, True)
                r0 = out0["result"] if e["kind"] == "array" else out0["self_after"]
                r1 = out1["result"] if e["kind"] == "array" else out1["self_after"]
                e["self_masked_ok"] = (r0 == r1 and r0 is not None)
                # in-place operator through a masked subject with a right-hand side of the UNMASKED length
                e["rhs_full_ok"] = False
                if e["self_masked_ok"] and e["name"].startswith("__i") and len(e["args"]) == 1 and e["args"][0].startswith("arr:"):
                    try:
                        out2, se2, ae2 = evaluate(e, N + 2, 3, 4, True, rhs_full=True)
                        r2 = out2["result"] if e["kind"] == "array" else out2["self_after"]
                        if e["scalar_oracle"] in ("exact", "approx"):
                            exp = [scalar_expected(e, se2, ae2, e["args"], i) for i in range(N + 2)]
                            e["rhs_full_ok"] = all(approx_equal(g, x) for g, x in zip(r2, exp))
                        else:
                            e["rhs_full_ok"] = r2 is not None and len(r2) == N + 2
                    except BaseException as ex2:  # noqa
                        if isinstance(ex2, (KeyboardInterrupt, SystemExit)):
                            raise
            except BaseException as ex:  # noqa
                if isinstance(ex, (KeyboardInterrupt, SystemExit)):
                    raise
                e["self_masked_ok"] = False
    return entries


def discover_grid():
    """operators of FixedArray2D / FixedMatrix classes: (class, method, argument kind)"""
    out = []
    for cls in sorted(GRID):
        sample, _ = grid_build(cls, 3, 2, 1, 1)
        names = [m for m in dir(sample) if m.startswith("__") and m.endswith("__") and m not in SKIP_METHODS and m not in ("__eq__", "__ne__") or m in ("__eq__", "__ne__")]
        for m in sorted(set(names)):
            try:
                if not callable(getattr(sample, m)):
                    continue
            except Exception:
                continue
            for kind in ("none", "same", "py:int", "py:float", "elem"):
                subj, vals = grid_build(cls, 3, 2, 2, 3)
                before = grid_canon(cls, subj)
                try:
                    arg, av = (None, None) if kind == "none" else grid_arg(kind, cls, 3, 2, 3, 4)
                    r = getattr(subj, m)(*([] if kind == "none" else [arg]))
                except BaseException as e:  # noqa
                    if isinstance(e, (KeyboardInterrupt, SystemExit)):
                        raise
                    continue
                rcls = type(r).__name__
                if rcls in GRID and grid_shape(rcls, r) == (3, 2):
                    k = "array"
                elif grid_canon(cls, subj) != before:
                    k = "inplace"
                else:
                    continue
                e = dict(cls=cls, name=m, arg=kind, kind=k, result_class=rcls if k == "array" else cls)
                if k == "array" and rcls in GRID:
                    e["result_base"] = GRID[rcls]["base"]
                # relation to the scalar semantics, measured on several data sets
                verdicts = []
                for (a, b) in ((1, 1), (2, 5), (3, 2), (4, 7), (5, 3), (6, 11), (9, 13)):
                    try:
                        subj, vals = grid_build(cls, 3, 3, a, b)
                        arg, av = (None, None) if kind == "none" else grid_arg(kind, cls, 3, 3, a + 1, b + 2)
                        r = getattr(subj, m)(*([] if kind == "none" else [arg]))
                        got = grid_canon(rcls if k == "array" else cls, r if k == "array" else subj)
                        exp = {ij: grid_expected(e, vals, arg, av, ij) for ij in vals}
                    except BaseException as ex:  # noqa
                        if isinstance(ex, (KeyboardInterrupt, SystemExit)):
                            raise
                        verdicts.append("none")
                        continue
                    if got == exp:
                        verdicts.append("exact")
                    elif all(approx_equal(got[ij], exp[ij]) for ij in exp):
                        verdicts.append("approx")
                    else:
                        verdicts.append("none")
                rel = "exact" if all(v == "exact" for v in verdicts) else ("approx" if all(v in ("exact", "approx") for v in verdicts) else "none")
                if rel == "exact" and GRID[cls]["base"] == "float" and cls.startswith("Float"):
                    rel = "approx"
                e["scalar_oracle"] = rel
                out.append(e)
    return out


def ctor_expected(cls, comp, k, elems):
    """scalar construction of element type of `cls` from the i-th elements of the argument arrays"""
    E = getattr(imath, ARR[cls]["elem"])
    return repr(E(*elems))


def discover_ctors():
    out = []
    for cls in ARR_NAMES:
        T = ARR[cls]["T"]
        if not ARR[cls].get("elem"):
            continue
        for comp in ARR_NAMES:
            if comp == cls:
                continue
            for k in (1, 2, 3, 4, 6, 9, 16):
                try:
                    args = [build_array(comp, 5, j + 1, j + 2, signed=False)[0] for j in range(k)]
                    r = T(*args)
                    if not (hasattr(r, "__len__") and len(r) == 5 and type(r).__name__ == cls):
                        continue
                except BaseException as e:  # noqa
                    if isinstance(e, (KeyboardInterrupt, SystemExit)):
                        raise
                    continue
                rel = "none"
                try:
                    ok = all(repr(r[i]) == ctor_expected(cls, comp, k, [a_[i] for a_ in args]) for i in range(5))
                    rel = "exact" if ok else "none"
                except BaseException as e:  # noqa
                    if isinstance(e, (KeyboardInterrupt, SystemExit)):
                        raise
                out.append(dict(cls=cls, comp=comp, k=k, scalar_oracle=rel))
    return out


if __name__ == "__main__":
    cents = discover_ctors()
    json.dump(cents, open(os.path.join(os.path.dirname(os.path.abspath(__file__)), "c20_catalogue_ctor.json"), "w"), indent=0)
    print(len(cents), "array constructors from arrays;", sum(1 for e in cents if e["scalar_oracle"] == "exact"), "with scalar oracle")
    gents = discover_grid()
    gdst = os.path.join(os.path.dirname(os.path.abspath(__file__)), "c20_catalogue_grid.json")
    json.dump(gents, open(gdst, "w"), indent=0)
    import collections as _c
    print(len(gents), "grid entries;", _c.Counter(e["scalar_oracle"] for e in gents))
    if "--grid-only" in sys.argv:
        sys.exit(0)
    ents = discover()
    ents = add_oracles(ents)
    # unique
    seen, out = set(), []
    for e in ents:
        key = (e["subject"], e["name"], tuple(e["args"]))
        if key in seen:
            continue
        seen.add(key)
        out.append(e)
    dst = os.path.join(os.path.dirname(os.path.abspath(__file__)), "c20_catalogue.json")
    json.dump(out, open(dst, "w"), indent=0)
    import collections
    print(len(out), "entries;", collections.Counter(e["scalar_oracle"] for e in out), collections.Counter(e["subject"].partition(":")[0] for e in out))
