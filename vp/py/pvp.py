"""pvp - thin layer over Hypothesis for program-shaped cases.

A *case* is a JSON-serialisable "program" (dict / list of operations with integer arguments) produced by a
Hypothesis strategy.  An *interpreter* executes it against the imath module and an explicit model and either
returns an info dict {"nontrivial": bool, "labels": [...], "desc": str} or raises Violation(key, msg).
Replay files are the JSON program itself, executed without Hypothesis.
"""
import argparse, hashlib, json, os, sys, time, traceback

import hypothesis
from hypothesis import given, settings, seed as hseed, HealthCheck, Phase


class Violation(Exception):
    def __init__(self, key, msg):
        Exception.__init__(self, "%s: %s" % (key, msg))
        self.key = key
        self.msg = msg


class Group:
    """One sub-check: a strategy + interpreter + case budget."""

    def __init__(self, name, strategy, interp, quick_n, thorough_n, rule, required_labels=(), items=None, fixed=()):
        self.name, self.strategy, self.interp = name, strategy, interp
        self.quick_n, self.thorough_n, self.rule = quick_n, thorough_n, rule
        self.required_labels = list(required_labels)
        # items: callable(tier, seed) -> list of programs executed one by one without Hypothesis (complete sweeps)
        self.items = items
        # fixed: hand-written programs always executed first (they guarantee that the classes the property
        # singles out are exercised in every run, whatever the random generator happens to produce)
        self.fixed = list(fixed)


class Runner:
    def __init__(self, prop, groups):
        self.prop = prop
        self.groups = groups
        ap = argparse.ArgumentParser()
        ap.add_argument("--tier", default="quick")
        ap.add_argument("--seed", type=int, default=1)
        ap.add_argument("--out")
        ap.add_argument("--replay-dir", default=".")
        ap.add_argument("--inflight")
        ap.add_argument("--known", default="")
        ap.add_argument("--replay")
        ap.add_argument("--saved", action="append", default=[])
        ap.add_argument("--only", action="append", default=[])
        ap.add_argument("--scale", type=float, default=1.0)
        ap.add_argument("--shard", default="0/1", help="i/n: this process runs shard i of n (random groups: 1/n of the cases with a derived seed; sweeps: items[i::n]); required-label checks are then left to the merging driver")
        self.a = ap.parse_args()
        self.known = set(k for k in self.a.known.split(",") if k)
        si, sn = self.a.shard.split("/")
        self.shard_i, self.shard_n = int(si), max(1, int(sn))

    # -- executing one program ------------------------------------------------------------------
    def execute(self, group, program):
        if self.a.inflight:
            with open(self.a.inflight, "w") as f:
                json.dump(dict(property=self.prop, group=group.name, program=program), f)
                f.flush()
        return group.interp(program)

    def replay_file(self, path):
        d = json.load(open(path))
        g = [x for x in self.groups if x.name == d.get("group")]
        if not g:
            print("ERROR unknown group %r in %s" % (d.get("group"), path))
            return 2
        try:
            info = self.execute(g[0], d["program"])
        except Violation as v:
            if v.key in self.known:
                print("REPLAY-KNOWN group=%s key=%s msg=%s" % (g[0].name, v.key, v.msg))
                return 0
            print("REPLAY-FAIL group=%s key=%s msg=%s" % (g[0].name, v.key, v.msg))
            return 1
        print("REPLAY-PASS group=%s %s" % (g[0].name, (info or {}).get("desc", "")))
        return 0

    # -- main ---------------------------------------------------------------------------------------
    def main(self):
        a = self.a
        if a.replay:
            return self.replay_file(a.replay)
        t0 = time.time()
        thorough = a.tier == "thorough"
        failures, harness_errors, subs = [], [], []
        total_evals = total_distinct = 0
        samples = []
        known_excluded = {}
        # saved inputs first (plain regression checks, no Hypothesis involved)
        n_saved = 0
        for sp in a.saved:
            try:
                d = json.load(open(sp))
            except (OSError, ValueError):
                continue
            g = [x for x in self.groups if x.name == d.get("group")]
            if not g:
                continue
            n_saved += 1
            try:
                self.execute(g[0], d["program"])
            except Violation as v:
                if v.key in self.known:
                    known_excluded[v.key] = known_excluded.get(v.key, 0) + 1
                    failures.append(dict(key=v.key, msg=v.msg, known=True, replay=sp, group=g[0].name))
                else:
                    failures.append(dict(key=v.key, msg=v.msg, known=False, replay=sp, group=g[0].name))
        for gi, g in enumerate(self.groups):
            if a.only and g.name not in a.only:
                continue
            n = int((g.thorough_n if thorough else g.quick_n) * a.scale)
            if self.shard_n > 1 and g.items is None:
                n = max(1, n // self.shard_n)
            if n <= 0 and g.items is None:
                continue
            ts = time.time()
            st = dict(evals=0, nontrivial=0, hashes=set(), labels={}, samples=[], last_fail=None, excluded=0)
            runner = self
            if g.items is not None:
                # deterministic sweep: every item once; the first failure per key is reported, the sweep continues
                seen_keys = set()
                for program in g.items(a.tier, a.seed)[self.shard_i::self.shard_n]:
                    st["evals"] += 1
                    try:
                        info = self.execute(g, program) or {}
                    except Violation as v:
                        if v.key in self.known:
                            st["excluded"] += 1
                            known_excluded[v.key] = known_excluded.get(v.key, 0) + 1
                            st.setdefault("known_example", {}).setdefault(v.key, (program, v.msg))
                            continue
                        if v.key in seen_keys:
                            continue
                        seen_keys.add(v.key)
                        fn = os.path.join(a.replay_dir, "%s.%s.json" % (g.name, v.key.replace("/", "_").replace(" ", "_")))
                        os.makedirs(a.replay_dir, exist_ok=True)
                        with open(fn, "w") as f:
                            json.dump(dict(property=self.prop, group=g.name, key=v.key, message=v.msg, program=program, found=dict(tier=a.tier, seed=a.seed)), f, indent=1)
                        failures.append(dict(key=v.key, msg=v.msg, known=False, replay=fn, group=g.name))
                        continue
                    if info.get("nontrivial"):
                        st["nontrivial"] += 1
                        h = hashlib.sha1(json.dumps(program, sort_keys=True).encode()).hexdigest()[:16]
                        st["hashes"].add(h)
                        if len(st["samples"]) < 3:
                            st["samples"].append(info.get("desc") or json.dumps(program)[:400])
                    for lab in info.get("labels", ()):
                        st["labels"][lab] = st["labels"].get(lab, 0) + 1
                for key, (program, msg) in st.get("known_example", {}).items():
                    failures.append(dict(key=key, msg=msg, known=True, replay="", group=g.name))
                had_fail = any((not f["known"]) and f["group"] == g.name for f in failures)
                if not had_fail and self.shard_n == 1:
                    for rl in g.required_labels:
                        if st["labels"].get(rl, 0) == 0:
                            harness_errors.append("group %s never generated required class %r" % (g.name, rl))
                subs.append(dict(name=g.name, required_labels=g.required_labels, had_fail=had_fail, planned=st["evals"], evaluations=st["evals"], nontrivial=st["nontrivial"], distinct_nontrivial=len(st["hashes"]),
                                 labels=st["labels"], excluded_known=st["excluded"], wall_s=round(time.time() - ts, 2), rule=g.rule, sweep=True))
                total_evals += st["evals"]
                total_distinct += len(st["hashes"])
                for smp in st["samples"][:2]:
                    samples.append("%s: %s" % (g.name, smp))
                sys.stderr.write("[%s/py] %-26s (sweep) evals=%d nontrivial=%d excluded_known=%d fails=%d %.1fs\n" % (
                    self.prop, g.name, st["evals"], st["nontrivial"], st["excluded"], len([f for f in failures if f["group"] == g.name and not f["known"]]), time.time() - ts))
                continue

            def make_body(g, st):
              def body(program):
                return body_impl(program, g, st)
              return body

            def body_impl(program, g, st):
                st["evals"] += 1
                try:
                    info = runner.execute(g, program) or {}
                except Violation as v:
                    if v.key in runner.known:
                        st["excluded"] += 1
                        known_excluded[v.key] = known_excluded.get(v.key, 0) + 1
                        st.setdefault("known_example", {}).setdefault(v.key, (program, v.msg))
                        return
                    st["last_fail"] = (program, v.key, v.msg)
                    raise
                if info.get("nontrivial"):
                    st["nontrivial"] += 1
                    h = hashlib.sha1(json.dumps(program, sort_keys=True).encode()).hexdigest()[:16]
                    if h not in st["hashes"]:
                        st["hashes"].add(h)
                        if len(st["samples"]) < 3:
                            st["samples"].append(info.get("desc") or json.dumps(program)[:400])
                for lab in info.get("labels", ()):
                    st["labels"][lab] = st["labels"].get(lab, 0) + 1

            for program in (g.fixed if self.shard_i == 0 else []):
                try:
                    body_impl(program, g, st)
                except Violation as v:
                    fn = os.path.join(a.replay_dir, "%s.%s.json" % (g.name, v.key.replace("/", "_").replace(" ", "_")))
                    os.makedirs(a.replay_dir, exist_ok=True)
                    with open(fn, "w") as f:
                        json.dump(dict(property=self.prop, group=g.name, key=v.key, message=v.msg, program=program, found=dict(tier=a.tier, seed=a.seed, fixed=True)), f, indent=1)
                    failures.append(dict(key=v.key, msg=v.msg, known=False, replay=fn, group=g.name))
            test = settings(max_examples=n, database=None, deadline=None, derandomize=False, report_multiple_bugs=False,
                            suppress_health_check=list(HealthCheck), phases=(Phase.generate, Phase.shrink), print_blob=False)(
                hseed(a.seed * 1000 + gi + 7919 * self.shard_i)(given(g.strategy)(make_body(g, st))))
            try:
                test()
            except Violation as v:
                program, key, msg = st["last_fail"]
                fn = os.path.join(a.replay_dir, "%s.%s.json" % (g.name, key.replace("/", "_").replace(" ", "_")))
                os.makedirs(a.replay_dir, exist_ok=True)
                with open(fn, "w") as f:
                    json.dump(dict(property=self.prop, group=g.name, key=key, message=msg, program=program, found=dict(tier=a.tier, seed=a.seed)), f, indent=1)
                # re-execute three times outside Hypothesis
                stable = 0
                for _ in range(3):
                    try:
                        self.execute(g, program)
                    except Violation as v2:
                        if v2.key == key:
                            stable += 1
                if stable != 3:
                    harness_errors.append("unstable failure %s in %s: %d/3 replays fail" % (key, g.name, stable))
                failures.append(dict(key=key, msg=msg, known=False, replay=fn, group=g.name))
            except Exception:  # harness bug or Hypothesis health problem: never a verdict
                harness_errors.append("exception in group %s: %s" % (g.name, traceback.format_exc()[-1500:]))
            for key, (program, msg) in st.get("known_example", {}).items():
                failures.append(dict(key=key, msg=msg, known=True, replay="", group=g.name))
            had_fail = any((not f["known"]) and f["group"] == g.name for f in failures)
            if not had_fail and self.shard_n == 1:
                for rl in g.required_labels:
                    if st["labels"].get(rl, 0) == 0:
                        harness_errors.append("group %s never generated required class %r" % (g.name, rl))
            subs.append(dict(name=g.name, required_labels=g.required_labels, had_fail=had_fail, planned=n, evaluations=st["evals"], nontrivial=st["nontrivial"], distinct_nontrivial=len(st["hashes"]),
                             labels=st["labels"], excluded_known=st["excluded"], wall_s=round(time.time() - ts, 2), rule=g.rule))
            total_evals += st["evals"]
            total_distinct += len(st["hashes"])
            for s in st["samples"][:2]:
                samples.append("%s: %s" % (g.name, s))
            sys.stderr.write("[%s/py] %-26s evals=%d nontrivial=%d distinct=%d excluded_known=%d fails=%d %.1fs\n" % (
                self.prop, g.name, st["evals"], st["nontrivial"], len(st["hashes"]), st["excluded"], 1 if had_fail else 0, time.time() - ts))
        cov = dict(evaluations=total_evals, distinct_nontrivial=total_distinct,
                   rule="each case is a program (operation sequence with integer arguments) generated by Hypothesis strategies, interpreted against the imath module and a pure-Python model; evaluations include Hypothesis' shrink-phase executions; distinct = distinct programs (SHA-1 of the JSON) among those non-trivial by the group's rule: " + " | ".join("%s: %s" % (s["name"], s["rule"]) for s in subs),
                   samples=samples or ["(none)"], exhaustive=False, subchecks=subs, replayed_saved_inputs=n_saved, excluded_known_failures=known_excluded)
        res = dict(property=self.prop, coverage=cov, failures=failures, harness_errors=harness_errors, wall_s=time.time() - t0)
        if a.out:
            with open(a.out, "w") as f:
                json.dump(res, f)
        else:
            json.dump(res, sys.stdout, indent=1)
        if harness_errors:
            for e in harness_errors:
                print("HARNESS-ERROR " + e)
        if any(not f["known"] for f in failures):
            return 1
        return 2 if harness_errors else 0
