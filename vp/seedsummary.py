#!/usr/bin/env python3
"""Regenerate /verif/seeded/SUMMARY.md from the meta.json files."""
import glob, json, os
V = os.path.dirname(os.path.dirname(os.path.abspath(__file__)))
rows = []
for mp in sorted(glob.glob(os.path.join(V, "seeded", "*", "meta.json"))):
    m = json.load(open(mp))
    d = os.path.basename(os.path.dirname(mp))
    st = m.get("steps", {})
    chk = [(k, v) for k, v in st.items() if k.startswith("check_")]
    verdict = "; ".join("%s: %s (%.0fs)" % (k[6:], v["status"], v.get("wall_s", 0)) for k, v in chk)
    how = ""
    for k, v in chk:
        if v["status"] == "CAUGHT":
            how = v.get("detail", "").split(":")[0].strip()
    fin = st.get("final_check")
    if fin:
        verdict = "final run (%s): %s (%.0fs)" % (fin.get("tier", "quick"), fin["status"], fin.get("wall_s", 0))
        if fin["status"] == "CAUGHT":
            how = fin.get("detail", "").split(":")[0].strip()
    readme = os.path.join(os.path.dirname(mp), "README.md")
    title = ""
    if os.path.exists(readme):
        for line in open(readme):
            line = line.strip().lstrip("# ").strip()
            if line:
                title = line[:140]
                break
    rows.append((d, m.get("property"), ", ".join(os.path.basename(f) for f in m.get("files_changed", [])), title, verdict, how, m.get("strengthened", "")))
with open(os.path.join(V, "seeded", "SUMMARY.md"), "w") as f:
    f.write("# Independently seeded changes\n\nEach directory holds patch.diff, the seeder's demonstration, its README and meta.json (what was verified: patch applies, the 38 pinned tests pass with it, the demonstration passes without and fails with the change, and the verdict of the property's check run against the patched copy).\n\n")
    f.write("| id | prop | files | change | check verdict | failure key | note |\n|---|---|---|---|---|---|---|\n")
    for r in rows:
        f.write("| " + " | ".join(str(x).replace("|", "\\|") for x in r) + " |\n")
    n = len(rows)
    caught = sum(1 for r in rows if "CAUGHT" in r[4])
    f.write("\n%d kept, %d caught by the registered checks.\n" % (n, caught))
print(open(os.path.join(V, "seeded", "SUMMARY.md")).read()[-600:])
