// C08: length() and normalisation are accurate for every non-overflowing vector.
#include "vpbt.h"
#include "oracles.h"
#include "gens.h"
#include <ImathVec.h>
#include <stdexcept>

using namespace orc;
using namespace IMATH_NAMESPACE;

enum
{
    L_TINY_PATH,
    L_SQ_UNDERFLOW,
    L_SPAN20,
    L_THRESHOLD,
    L_SINGLE,
    L_ZERO,
    L_SUBNORMAL_NORM,
    L_SIGNED_ZERO,
    L_HUGE,
    L_NEAR_UNIT,
    L_RATIO_SQ_OVERFLOW
};
#define C08_LABELS "tiny_path", "square_underflows", "span_gt_2^20", "near_2min_threshold", "single_nonzero", "zero_vector", "subnormal_norm", "signed_zero_component", "near_sqrt_max", "norm_within_2^-6_of_1_not_exact", "component_ratio_above_sqrt_max"

template <class T> struct Lim
{
    // exponent range for components: smallest subnormal .. sqrt(max)/2
    static int emin () { return std::numeric_limits<T>::min_exponent - std::numeric_limits<T>::digits; } // 2^emin = denorm_min
    static int emax () { return (std::numeric_limits<T>::max_exponent) / 2 - 2; }                         // 2^(emax+1) <= sqrt(max)/2
};

template <class V, class T, int N> static void gen_vec (vp::Ctx& c, V& v, int& pattern)
{
    vp::Src& s = c.s;
    pattern    = (int) s.below (10);
    int lo = Lim<T>::emin (), hi = Lim<T>::emax ();
    auto comp = [&] (int e) -> T {
        if (e > hi) e = hi;
        if (e < lo - 2) return (T) 0;
        T m = (T) 1 + (T) s.unit ();
        T r = std::ldexp (m, e);
        if (s.coin ()) r = -r;
        return r;
    };
    int e0 = (int) s.range (lo, hi);
    switch (pattern)
    {
        case 0: // equal magnitudes
            for (int i = 0; i < N; ++i)
                v[i] = comp (e0);
            break;
        case 1: // graded magnitudes up to 2^40 apart
            for (int i = 0; i < N; ++i)
                v[i] = comp (e0 - (int) s.below (41));
            break;
        case 2: // full-range mix
            for (int i = 0; i < N; ++i)
                v[i] = comp ((int) s.range (lo, hi));
            break;
        case 3: // single non-zero component, others +-0
        {
            int k = (int) s.below (N);
            for (int i = 0; i < N; ++i)
                v[i] = s.coin () ? (T) 0 : -(T) 0;
            v[k] = comp (e0);
            break;
        }
        case 4: // around the 2*min threshold of the squared length
        {
            // |v|^2 ~ 2*min * (1 + small): put the bulk in one component and tiny perturbations elsewhere
            T   root = std::sqrt ((T) 2 * std::numeric_limits<T>::min ());
            int k    = (int) s.below (N);
            for (int i = 0; i < N; ++i)
                v[i] = s.coin () ? (T) 0 : comp (std::numeric_limits<T>::min_exponent / 2 - 4 - (int) s.below (30));
            typename gen::Bits<T>::U u = gen::to_bits<T> (root);
            u += (typename gen::Bits<T>::U) s.range (0, 16);
            u -= 8;
            v[k] = gen::from_bits<T> (u);
            if (s.coin ()) v[k] = -v[k];
            break;
        }
        case 5: // all components in the subnormal / underflowing-square range
            for (int i = 0; i < N; ++i)
                v[i] = comp ((int) s.range (lo, std::numeric_limits<T>::min_exponent / 2 + 2));
            break;
        case 6: // near the top of the allowed range
            for (int i = 0; i < N; ++i)
                v[i] = comp (hi - (int) s.below (3));
            break;
        case 8: // norm close to, but not exactly, 1: |v| = 1 + d, |d| = 2^-k u, k = 6 .. digits
        {
            quad w[N], n2 = 0;
            for (int i = 0; i < N; ++i)
            {
                double u = s.uniform (-1, 1);
                if (s.chance (48)) u = 0;
                w[i] = (quad) u;
                n2 += w[i] * w[i];
            }
            if (n2 == 0)
            {
                w[0] = 1;
                n2   = 1;
            }
            int    k  = (int) s.range (6, std::numeric_limits<T>::digits);
            double u2 = s.uniform (0.5, 1);
            bool   up = s.coin ();
            quad   d  = (quad) std::ldexp (u2, -k);
            quad   f  = (up ? 1 + d : 1 - d) / sqrtq (n2);
            for (int i = 0; i < N; ++i)
                v[i] = (T) (w[i] * f);
            break;
        }
        case 9: // two components whose ratio exceeds sqrt(max) (the square of the ratio overflows), the rest smaller or zero
        {
            int big = (int) s.below (N);
            int sm  = (int) s.below (N - 1);
            if (sm >= big) ++sm;
            int gap = (int) s.range (std::numeric_limits<T>::max_exponent / 2 + 1, hi - lo);
            int eb  = (int) s.range (lo + gap, hi);
            for (int i = 0; i < N; ++i)
            {
                unsigned m = (unsigned) s.below (3);
                v[i]       = m == 0 ? (T) 0 : comp (eb - gap - (int) s.below (20));
            }
            v[big] = comp (eb);
            v[sm]  = comp (eb - gap);
            break;
        }
        default: // small integers / zeros (exact cases incl. the zero vector)
            for (int i = 0; i < N; ++i)
                v[i] = (T) s.range (-3, 3);
            break;
    }
}

template <class V, class T, int N> static void length_case (vp::Ctx& c, const char* tname)
{
    V   v;
    int pattern;
    gen_vec<V, T, N> (c, v, pattern);
    VP_NOTE (c, tname << " v=" << vstr (v, N) << " pattern=" << pattern);
    const T minN = std::numeric_limits<T>::min ();
    // exact norm
    quad s2 = 0, amax = 0, amin_nz = 0;
    bool allzero = true, anysubsq = false, szero = false;
    int  nz = 0;
    for (int i = 0; i < N; ++i)
    {
        quad x = (quad) v[i];
        s2 += x * x;
        if (v[i] != 0)
        {
            allzero = false;
            ++nz;
            quad a = qabs (x);
            if (a > amax) amax = a;
            if (amin_nz == 0 || a < amin_nz) amin_nz = a;
            if (x * x < (quad) minN) anysubsq = true;
        }
        else if (std::signbit (v[i]))
            szero = true;
    }
    quad norm = sqrtq (s2);
    // labels / non-trivial
    T    l2  = v.length2 ();
    bool tiny = l2 < (T) 2 * minN;
    if (tiny && !allzero) c.label (L_TINY_PATH);
    if (anysubsq) c.label (L_SQ_UNDERFLOW);
    bool span = !allzero && amin_nz > 0 && amax / amin_nz > (quad) 1048576.0;
    if (span) c.label (L_SPAN20);
    bool thr = !allzero && qabs (s2 / (quad) ((T) 2 * minN) - 1) < (quad) (16 * FInfo<T>::eps ());
    if (thr) c.label (L_THRESHOLD);
    if (nz == 1) c.label (L_SINGLE);
    if (allzero) c.label (L_ZERO);
    if (!allzero && norm < (quad) minN) c.label (L_SUBNORMAL_NORM);
    if (szero) c.label (L_SIGNED_ZERO);
    if (pattern == 6) c.label (L_HUGE);
    bool nearunit = !allzero && norm != 1 && qabs (norm - 1) < (quad) 0.015625;
    if (nearunit) c.label (L_NEAR_UNIT);
    bool ratio = !allzero && amin_nz > 0 && amax / amin_nz > sqrtq ((quad) std::numeric_limits<T>::max ());
    if (ratio) c.label (L_RATIO_SQ_OVERFLOW);
    c.nt (anysubsq || span || thr || nearunit);

    // 1. length
    T len = v.length ();
    if (allzero)
        VP_REQUIRE (c, len == 0, "length-zero-vector", tname << " length of zero vector = " << len);
    else
    {
        VP_REQUIRE (c, len > 0 && std::isfinite (len), "length-zero-or-nonfinite", tname << " length(" << vstr (v, N) << ") = " << len << " exact " << qstr (norm));
        double u = ulps<T> (len, norm);
        VP_REQUIRE (c, u <= 6.0, "length-accuracy", tname << " length(" << vstr (v, N) << ") = " << len << " exact " << qstr (norm) << " error " << u << " ulps (limit 6)");
    }
    // 2. length2 == dot(v,v) == v^v bitwise, and close to the exact sum of squares when nothing underflows
    VP_REQUIRE (c, same<T> (l2, v.dot (v)) && same<T> (l2, v ^ v), "length2-vs-dot", tname << " length2 " << l2 << " != dot " << v.dot (v));
    {
        quad tol = (quad) ((N + 1) * FInfo<T>::eps ()) * s2 + (quad) N * (quad) std::numeric_limits<T>::denorm_min ();
        VP_REQUIRE (c, qabs ((quad) l2 - s2) <= tol, "length2-accuracy", tname << " length2(" << vstr (v, N) << ") = " << l2 << " exact " << qstr (s2));
    }
    // 3. normalisation, every spelling
    V n[6];
    const char* spell[6] = { "normalize", "normalized", "normalizeExc", "normalizedExc", "normalizeNonNull", "normalizedNonNull" };
    int  cnt = 0;
    {
        V a = v;
        const V& r = a.normalize ();
        VP_REQUIRE (c, &r == &a, "normalize-returns-this", "normalize() does not return *this");
        n[cnt++] = a;
        V b      = v;
        n[cnt++] = b.normalized ();
        for (int i = 0; i < N; ++i)
            VP_REQUIRE (c, same<T> (b[i], v[i]), "normalized-modifies", "normalized() modified *this");
    }
    if (allzero)
    {
        for (int k = 0; k < 2; ++k)
            for (int i = 0; i < N; ++i)
                VP_REQUIRE (c, n[k][i] == 0, "normalize-zero-vector", tname << " " << spell[k] << " of the zero vector gives " << vstr (n[k], N));
        return;
    }
    {
        // the Exc forms may throw only for the null vector (this one is not null)
        try
        {
            V a = v;
            a.normalizeExc ();
            n[cnt++] = a;
            n[cnt++] = v.normalizedExc ();
        }
        catch (const std::exception& ex)
        {
            VP_FAIL (c, "normalizeExc-throws-for-nonnull", tname << " normalizeExc/normalizedExc threw '" << ex.what () << "' for the non-null vector " << vstr (v, N) << " (norm " << qstr (norm) << ")");
        }
        V b = v;
        b.normalizeNonNull ();
        n[cnt++] = b;
        n[cnt++] = v.normalizedNonNull ();
    }
    bool normal_norm = norm >= (quad) minN;
    for (int k = 0; k < cnt; ++k)
    {
        quad ns = 0;
        for (int i = 0; i < N; ++i)
        {
            T g = n[k][i];
            VP_REQUIRE (c, std::isfinite (g), "normalize-nonfinite", tname << " " << spell[k] << "(" << vstr (v, N) << ") component " << i << " = " << g);
            VP_REQUIRE (c, std::signbit (g) == std::signbit (v[i]), "normalize-sign", tname << " " << spell[k] << "(" << vstr (v, N) << ") component " << i << " = " << g << " changes sign");
            ns += (quad) g * (quad) g;
            if (normal_norm)
            {
                quad   want = (quad) v[i] / norm;
                double u    = ulps<T> (g, want);
                VP_REQUIRE (c, u <= 8.0, "normalize-component", tname << " " << spell[k] << "(" << vstr (v, N) << ") component " << i << " = " << g << " exact " << qstr (want) << " error " << u << " ulps (limit 8)");
            }
        }
        if (normal_norm)
        {
            quad nl = sqrtq (ns);
            VP_REQUIRE (c, qabs (nl - 1) <= (quad) (4 * FInfo<T>::eps ()), "normalize-unit-length", tname << " " << spell[k] << "(" << vstr (v, N) << ") has length " << qstr (nl));
        }
        // all spellings agree bit-for-bit
        for (int i = 0; i < N; ++i)
            VP_REQUIRE (c, same<T> (n[k][i], n[0][i]), "normalize-spellings-differ", tname << " " << spell[k] << " differs from normalize() on " << vstr (v, N) << ": " << vstr (n[k], N) << " vs " << vstr (n[0], N));
    }
}

#define C08_SUB(name, V, T, N, tname)                                                                         \
    VP_RANDOM (name, 2500000, 40000000, "vectors from 10 pattern classes (equal / graded / full-range exponents from the smallest subnormal to sqrt(max)/2, single non-zero, 2*min threshold +-8 ulps, subnormal, near-top, small integers, norm = 1 +- 2^-k with k = 6..digits, two components with a ratio above sqrt(max)); oracle = quad norm; non-trivial = some square underflows or is subnormal, or magnitudes span > 2^20, or within 16 eps of the threshold, or norm within 2^-6 of 1 without being 1") \
    {                                                                                                         \
        length_case<V, T, N> (c, tname);                                                                      \
    }                                                                                                         \
    VP_LABELS (name, C08_LABELS)                                                                              \
    VP_REQUIRE_LABELS (name, "tiny_path", "square_underflows", "span_gt_2^20", "near_2min_threshold", "single_nonzero", "zero_vector", "subnormal_norm", "norm_within_2^-6_of_1_not_exact", "component_ratio_above_sqrt_max")

C08_SUB (vec2f, V2f, float, 2, "V2f")
C08_SUB (vec3f, V3f, float, 3, "V3f")
C08_SUB (vec4f, V4f, float, 4, "V4f")
C08_SUB (vec2d, V2d, double, 2, "V2d")
C08_SUB (vec3d, V3d, double, 3, "V3d")
C08_SUB (vec4d, V4d, double, 4, "V4d")

VP_MAIN ("C08")
