// C04 part 1: instantiations of component_case<A> (see c04_component.h)
#include "c04_component.h"

C04_SUB (V2s, Vec2<short>, 250000, 5000000)
C04_SUB (V3s, Vec3<short>, 250000, 5000000)
C04_SUB (V4s, Vec4<short>, 250000, 5000000)
C04_SUB (Color3c_, Color3<unsigned char>, 250000, 5000000)

VP_MAIN ("C04")
