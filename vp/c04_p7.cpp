// C04 part 7: instantiations of component_case<A> (see c04_component.h)
#include "c04_component.h"

C04_SUB (Color4h_, Color4<half>, 250000, 5000000)
C04_SUB (Color4f_, Color4<float>, 250000, 5000000)
C04_SUB (Shear6f_, Shear6<float>, 250000, 5000000)
C04_SUB (Shear6d_, Shear6<double>, 250000, 5000000)
