#!/usr/bin/env python3
"""Regenerate /verif/MANIFEST.json from the table below (kept valid at all times)."""
import json, os
V = os.path.dirname(os.path.dirname(os.path.abspath(__file__)))
ALL = ["C%02d" % i for i in range(1, 21)]
# property -> (technique, level text, level note, design ref)
CLAIMED = {
 "C01": ("exhaustive enumeration (2^16 half + 2^32 float patterns) against an independent by-value binary16 codec, itself cross-checked against a nearest-neighbour search codec",
         "Every input of both conversions is enumerated in both tiers and compared bit-for-bit with an independent reference; for this finite domain generated-input search is complete, so a pass means the property holds for the compiled configuration.",
         "Trusts the reference codec (validated against a second, structurally different codec on 2.1e7 stratified inputs each run), the host FPU's double arithmetic and the compilers; covers the default (lookup-table) configuration - other back-ends are C02.",
         "DESIGN.md section 5 C01"),
 "C03": ("exhaustive enumeration of half patterns / boundary-pair products plus seeded random pairs (all 2^32 ordered pairs x 4 ops in the thorough tier), oracle = independent binary16 codec around one float operation; brute-force validation of numeric_limits/HALF_* against behaviour",
         "All single-operand facts (unary minus, classification, text round trip, round(n) for 19 values of n, limits) are decided exhaustively in both tiers; binary compound arithmetic is exhaustive over a 4096-pattern boundary set (1.7e7 pairs x 4 ops), 2e7 random pairs and every half x ~1200 boundary floats in quick, and over all 2^32 pairs in thorough; halfFunction is checked entry-by-entry for generated domain tuples.",
         "Trusts the reference codec of C01, host float arithmetic (one IEEE operation in binary32) and libc strtod/printf for the decimal-digit claims. NaN results are compared by NaN-ness only.",
         "DESIGN.md section 5 C03"),
 "C08": ("seeded class-structured random generation (exponent sweep from the smallest subnormal to sqrt(max)/2, 8 pattern classes) with shrinking; oracle = norm and quotients evaluated in __float128, error measured in ulps",
         "Samples the continuous domain densely where the algorithm switches (2*min threshold +-8 ulps, underflowing squares, subnormal norms, graded magnitudes) for Vec2/3/4 x float/double and all six normalisation spellings; a pass means no counter-example among 1.5e7 (quick) / 2.4e8 (thorough) generated vectors, it is not a proof.",
         "Bounds: length within 6 ulps, components within 8 ulps, |n| within 4 eps (measured worst on the unchanged tree 2.7 / 3.5 ulps). Errors smaller than the bounds are invisible. Trusts libquadmath sqrtq.",
         "DESIGN.md section 5 C08"),
 "C02": ("exhaustive differential testing: 20 build configurations of half.h (g++/clang++ C++14/17/20, gcc/clang C99/C11, table / IMATH_HALF_NO_LOOKUP_TABLE / cmake -DIMATH_HALF_USE_LOOKUP_TABLE=OFF, -mf16c) compiled from the working tree into separate shared objects and compared output-for-output on all 2^16 half and all 2^32 float inputs; generator program re-run and diffed against the shipped table",
         "Each configuration is the same shim compiled under its own flags with hidden visibility; bit equality with the reference configuration is demanded on every input (F16C: NaN payload free, NaN-ness and sign fixed). Quick: 7 configuration/spelling pairs covering every source path on all 2^32 floats, the remaining 25 on 2^30 each; thorough: all 32 on 2^32. toFloat.cpp is compiled and run, its 65538 tokens compared with toFloat.h and the in-memory table.",
         "Only the compilers, language modes and CPU present in this sandbox are covered (x86-64 with F16C; no MSVC/ARM paths); if the CPU lacked F16C those configurations would be recorded as skipped. Trusts dlopen/-Bsymbolic isolation between configurations.",
         "DESIGN.md section 5 C02"),
 "C04": ("typed cross-product enumeration (34 aggregate types as separate sub-checks) x generated operator/spelling kind x class-structured operands; oracle = scalar expression per slot evaluated in the element type, bitwise comparison; layout via addresses of named members; text via independent tokenisation",
         "Every (type, element type) combination is instantiated; the operator kind (14 kinds incl. binary/compound/unary/negate/scalar-left/scalar-right/==/!=/equalWith*/layout/constructors+setValue+getValue/interop/text) is generated and its histogram reported, every slot of every result compared. A pass means no counter-example in 9e6 (quick) / 1.7e8 (thorough) generated cases.",
         "Integer operands are restricted to the range where the scalar C++ operation is defined (no signed overflow, no division by zero) - outside it the scalar oracle itself is undefined. unsigned char text output is excluded as the statement says. Converting constructors are exercised with one other element type per T.",
         "DESIGN.md section 5 C04"),
 "C19": ("Hypothesis-generated operation programs (stateful, model-based) interpreted against the ASan-instrumented imath module and pure-Python list / nested-list / dict models; fixed scenario programs for the view-lifetime and read-only classes; ASan as memory-safety oracle",
         "Six program families (1-D FixedArray over all 48 exported element types; FixedArray2D; FixedMatrix; FixedVArray; String/WstringArray; buffer export and ...FromBuffer) with full-content comparison against the model after every step, derived views (masked references, element references, row views, memoryviews) kept alive while their owners are released in generated order, read-only protection exercised through every derived object. A pass means no divergence and no sanitizer report on the programs explored.",
         "The module is rebuilt from the working tree with -fsanitize=address and run under python3-vt with libasan preloaded; a dangling view is only visible because of ASan. Views created BEFORE makeReadOnly keep their own writable flag by design and are modelled so (not asserted read-only). 2-D/matrix/varray use forward slices only, as the statement says. Mask assignment is exercised on direct (non-masked) arrays.",
         "DESIGN.md section 5 C19"),
}
PENDING_REASON = "check under construction in this session (harness not yet committed); will be claimed once it passes on the unchanged tree"
def main():
    checks = []
    for p in ALL:
        if p not in CLAIMED: continue
        tech, text, note, ref = CLAIMED[p]
        checks.append(dict(property_id=p,
            quick_cmd="python3 vp/run.py %s --tier quick" % p,
            thorough_cmd="python3 vp/run.py %s --tier thorough" % p,
            evidence_file="/verif/evidence/%s.json" % p,
            replay_cmd_template="python3 vp/run.py %s --replay {path}" % p,
            engine="pvp+hypothesis" if p in ("C19", "C20") else "vpbt",
            level_claimed=dict(category="exploration", text=text, design_ref=ref),
            level_note=note, technique=tech))
    m = dict(version=1,
        setup_cmd="python3 vp/run.py --setup",
        hooks=dict(guard="IMATH_VERIF", enable="no hooks are needed: every property is observable through public API; checks compile /repo's working-tree sources directly", baseline_off_cmd="cmake --build /repo/_build && ctest --test-dir /repo/_build -j8 --timeout 900", source_commits=[], add_only=True),
        engines=[dict(name="pvp+hypothesis", path="/verif/vp/py/pvp.py", serves_properties=[p for p in ("C19", "C20") if p in CLAIMED], kind_free_text="Hypothesis 6.168 strategies generate JSON programs (operation sequences), interpreted against the ASan-built imath Python module and a Python model; replay files are the programs; driver vp/pydriver.py builds PyImath from the tree (ninja, content-hash driven)"),
                 dict(name="vpbt", path="/verif/vp/vpbt.h", serves_properties=[p for p in ALL if p in CLAIMED], kind_free_text="own choice-sequence property-based testing engine (C++17): class-structured generators, exhaustive enumerations, shortlex shrinking, same decode used as libFuzzer target (clang -fsanitize=fuzzer,address,undefined); driver vp/run.py")],
        checks=checks,
        notes="All checks rebuild from $VERIF_REPO (default /repo) working tree, content-hash cached under /verif/build. VERIF_SEED and VERIF_TIER honoured.",
        not_applicable=[dict(property_id=p, reason=PENDING_REASON) for p in ALL if p not in CLAIMED])
    json.dump(m, open(os.path.join(V, "MANIFEST.json"), "w"), indent=1)
    print("claimed:", [c["property_id"] for c in checks])
main()
