// C09: transform builders act as documented; in-place forms pre-multiply (Matrix22/33::rotate post-multiply);
//      frame builders return orthonormal right-handed frames with the documented axes and origin.
//
// Oracles are written from the header documentation in quad precision (c09_util.h: E_translation, E_scale,
// E_shear33/44 from the "shear a for each b coord." sentences, Rodrigues rotations, Rx*Ry*Rz for XYZ Euler angles);
// no Imath routine is used to produce an expected value.
// Sub-check families: build_* / inplace_* / inplace_mixed_* / frames_* (generic and degenerate classes), and the later
// *_near_* / *_structured_* / *_exact_* families, which place the inputs at and around the special cases an
// implementation could single out (c09_util.h, second half, describes their generators).
#include "c09_util.h"
#include <ImathMatrixAlgo.h>
#include <ImathFrame.h>

using namespace orc;
using namespace c09;
using namespace IMATH_NAMESPACE;

template <class T> static inline quad EPS () { return (quad) FInfo<T>::eps (); }
static inline quad                    EPSF () { return (quad) FInfo<float>::eps (); }

template <class T> struct TN;
template <> struct TN<float>
{
    static const char* n () { return "float"; }
};
template <> struct TN<double>
{
    static const char* n () { return "double"; }
};
template <> struct TN<int>
{
    static const char* n () { return "int"; }
};
template <> struct TN<short>
{
    static const char* n () { return "short"; }
};

template <class M, int N> static bool all_finite (const M& m)
{
    for (int i = 0; i < N; ++i)
        for (int j = 0; j < N; ++j)
            if (!std::isfinite (m[i][j])) return false;
    return true;
}

// ===================================================================================================================
// 1. builders
// ===================================================================================================================

// library action of a matrix on a point through operator* (Vec, Matrix)
template <class T> static inline void lib_apply (const Vec3<T>& p, const Matrix44<T>& m, T* out)
{
    Vec3<T> q = p * m;
    out[0]    = q.x;
    out[1]    = q.y;
    out[2]    = q.z;
}
template <class T> static inline void lib_apply (const Vec2<T>& p, const Matrix33<T>& m, T* out)
{
    Vec2<T> q = p * m;
    out[0]    = q.x;
    out[1]    = q.y;
}
template <class T> static inline void lib_apply (const Vec2<T>& p, const Matrix22<T>& m, T* out)
{
    Vec2<T> q = p * m;
    out[0]    = q.x;
    out[1]    = q.y;
}

// B: matrix produced by the library builder; E: expected matrix; slot_tol: absolute per-slot bound in units of eps
// (0 => the slot must hold exactly the documented value); p: a point.
template <class T, int N, class M, class V>
static void check_builder (vp::Ctx& c, const std::string& name, const M& B, const QM<N>& E, double slot_tol_eps, bool rotation, const V& p, double orth_tol_eps = 8)
{
    const int  D   = N == 2 ? 2 : N - 1;
    const bool hom = N > 2;
    const quad eps = EPS<T> ();
    VP_REQUIRE (c, (all_finite<M, N> (B)), name + "/nonfinite", TN<T>::n () << " " << name << " produced " << mstr (B, N));
    for (int i = 0; i < N; ++i)
        for (int j = 0; j < N; ++j)
        {
            quad d = qabs ((quad) B[i][j] - E.a[i][j]);
            if (slot_tol_eps > 0) C09_MEAS (name + "|" + TN<T>::n () + "|slot/eps", d / eps);
            VP_REQUIRE (c, d <= (quad) slot_tol_eps * eps, name + "/slot", TN<T>::n () << " " << name << " slot [" << i << "][" << j << "] = " << B[i][j] << " expected " << qstr (E.a[i][j]) << " (bound " << slot_tol_eps << " eps); matrix " << mstr (B, N));
        }
    // action on a point through operator*(Vec, Matrix)
    T got[3];
    lib_apply (p, B, got);
    quad w = 1;
    if (hom)
    {
        w = E.a[D][D];
        for (int i = 0; i < D; ++i)
            w += (quad) p[i] * E.a[i][D];
    }
    quad psum = 0;
    for (int i = 0; i < D; ++i)
        psum += qabs ((quad) p[i]);
    for (int j = 0; j < D; ++j)
    {
        quad num = hom ? E.a[D][j] : 0, as = qabs (num);
        for (int i = 0; i < D; ++i)
        {
            num += (quad) p[i] * E.a[i][j];
            as += qabs ((quad) p[i] * E.a[i][j]);
        }
        quad want = num / w;
        quad tol  = (quad) (D + 2) * eps * as + (rotation ? (quad) (slot_tol_eps + 1) * eps * psum : 0) + (quad) std::numeric_limits<T>::denorm_min ();
        quad d    = qabs ((quad) got[j] - want);
        if (tol > 0) C09_MEAS (name + "|" + TN<T>::n () + "|point/tol", d / tol);
        VP_REQUIRE (c, d <= tol, name + "/point", TN<T>::n () << " " << name << ": p*M component " << j << " = " << got[j] << " expected " << qstr (want) << " for p=" << vstr (p, D) << " M=" << mstr (B, N));
    }
    if (rotation)
    {
        // orthonormal, determinant +1 (rotation block; the homogeneous border was checked slot by slot)
        QM<N> Bq = QM<N>::from (B);
        QM<N> G  = Bq * transpose (Bq);
        quad  worst = 0;
        for (int i = 0; i < N; ++i)
            for (int j = 0; j < N; ++j)
                worst = qmax (worst, qabs (G.a[i][j] - (i == j ? 1 : 0)));
        C09_MEAS (name + "|" + TN<T>::n () + "|orthonormal/eps", worst / eps);
        VP_REQUIRE (c, worst <= (quad) orth_tol_eps * eps, name + "/orthonormal", TN<T>::n () << " " << name << ": M*M^T deviates from identity by " << qstr (worst / eps) << " eps; M=" << mstr (B, N));
        quad dt = det (Bq);
        C09_MEAS (name + "|" + TN<T>::n () + "|det/eps", qabs (dt - 1) / eps);
        VP_REQUIRE (c, qabs (dt - 1) <= (quad) orth_tol_eps * eps, name + "/determinant", TN<T>::n () << " " << name << ": determinant " << qstr (dt) << "; M=" << mstr (B, N));
    }
}

enum
{
    B44_TRANSLATION,
    B44_SCALE_UNIFORM,
    B44_SCALE_VEC,
    B44_SHEAR_VEC3,
    B44_SHEAR_SHEAR6,
    B44_EULER,
    B44_AXISANGLE,
    B33_ROTATION,
    B33_SCALE_UNIFORM,
    B33_SCALE_VEC,
    B33_TRANSLATION,
    B33_SHEAR_SCALAR,
    B33_SHEAR_VEC2,
    B22_ROTATION,
    B22_SCALE_UNIFORM,
    B22_SCALE_VEC,
    B_NOPS,
    BL_NONAFFINE = B_NOPS,
    BL_MULTIPERIOD,
    BL_AXIS_TINY,
    BL_AXIS_HUGE,
    BL_AXIS_GRADED
};
#define C09_BUILD_LABELS                                                                                               \
    "m44_setTranslation", "m44_setScale_uniform", "m44_setScale_vec", "m44_setShear_vec3", "m44_setShear_shear6", "m44_setEulerAngles", "m44_setAxisAngle", "m33_setRotation", "m33_setScale_uniform", "m33_setScale_vec", "m33_setTranslation", "m33_setShear_scalar", "m33_setShear_vec2", "m22_setRotation", "m22_setScale_uniform", "m22_setScale_vec", "previous_contents_nonaffine", "angle_beyond_one_period", "axis_tiny", "axis_huge", "axis_graded"

// op weights: rotations are drawn more often than the trivially exact builders
static const int BUILD_OPS[] = { B44_TRANSLATION, B44_SCALE_UNIFORM, B44_SCALE_VEC, B44_SHEAR_VEC3, B44_SHEAR_SHEAR6, B44_EULER, B44_EULER, B44_EULER, B44_AXISANGLE, B44_AXISANGLE, B44_AXISANGLE, B33_ROTATION, B33_ROTATION, B33_SCALE_UNIFORM, B33_SCALE_VEC, B33_TRANSLATION, B33_SHEAR_SCALAR, B33_SHEAR_VEC2, B22_ROTATION, B22_ROTATION, B22_SCALE_UNIFORM, B22_SCALE_VEC };

// Generator policy of build_f / build_d (the draw sequence the saved replays were recorded with); build_near_* uses
// BuildGenNear (end of this file) with the same checks.
struct BuildGenDefault
{
    template <class M, class T, int N> int matrix (vp::Ctx& c, M& m) { return gen_matrix<M, T, N> (c.s, m); }
    template <class T> Vec3<T>             point (vp::Ctx& c) { return gen_point<T> (c.s); }
    template <class T> T                   param (vp::Ctx& c) { return gen_param_any<T> (c.s); }
    template <class T> Vec3<T>             param3 (vp::Ctx& c) { return gen_param3<T> (c.s); }
    template <class T> Vec2<T>             param2 (vp::Ctx& c) { return gen_param2<T> (c.s); }
    template <class T> T                   angle (vp::Ctx& c) { return gen_angle<T> (c.s); }
    template <class T> Vec3<T>             angle3 (vp::Ctx& c) { return gen_angle3<T> (c.s); }
    template <class T> Vec3<T>             axis (vp::Ctx& c, int& cls) { return gen_axis<T> (c.s, cls); }
};

// the four rotation builders; S integral: never called (the op is remapped), std::true_type overload does nothing
template <class T, class S, class P> static void build_rotation (vp::Ctx&, P&, int, Matrix44<T>&, Matrix33<T>&, Matrix22<T>&, const Vec3<T>&, const Vec2<T>&, const std::string&, std::true_type) {}
template <class T, class S, class P> static void build_rotation (vp::Ctx& c, P& pol, int op, Matrix44<T>& m4, Matrix33<T>& m3, Matrix22<T>& m2, const Vec3<T>& p3, const Vec2<T>& p2, const std::string& tn, std::false_type)
{
    switch (op)
    {
        case B44_EULER:
        {
            Vec3<S> a = pol.template angle3<S> (c);
            bool    multi = std::fabs (a.x) > 3.2 || std::fabs (a.y) > 3.2 || std::fabs (a.z) > 3.2;
            if (multi)
            {
                c.label (BL_MULTIPERIOD);
                c.nt ();
            }
            VP_NOTE (c, tn << " M44.setEulerAngles r=" << vstr (a, 3) << " previous=" << mstr (m4, 4) << " p=" << vstr (p3, 3));
            const Matrix44<T>& r = m4.setEulerAngles (a);
            VP_REQUIRE (c, &r == &m4, "m44-setEulerAngles/returns-this", "does not return *this");
            // three sin/cos factors (<= 1 ulp each) and two roundings per term: measured worst slot error 1.33 eps,
            // |M M^T - I| 2.6 eps, |det - 1| 2.4 eps (1.6e7 cases)
            double amax = std::max (std::fabs ((double) a.x), std::max (std::fabs ((double) a.y), std::fabs ((double) a.z)));
            check_builder<T, 4> (c, "m44-setEulerAngles", m4, E_euler ((quad) a.x, (quad) a.y, (quad) a.z), 6 * rot_scale<T, S> (3 * amax, true), true, p3, 12 * rot_scale<T, S> (0, false));
            break;
        }
        case B44_AXISANGLE:
        {
            int     cls;
            Vec3<S> ax  = pol.template axis<S> (c, cls);
            S       ang = pol.template angle<S> (c);
            if (cls == 2) c.label (BL_AXIS_TINY);
            if (cls == 3) c.label (BL_AXIS_HUGE);
            if (cls == 4) c.label (BL_AXIS_GRADED);
            if (std::fabs (ang) > 3.2)
            {
                c.label (BL_MULTIPERIOD);
                c.nt ();
            }
            c.nt (cls == 2 || cls == 3);
            VP_NOTE (c, tn << " M44.setAxisAngle axis=" << vstr (ax, 3) << " angle=" << ang << " previous=" << mstr (m4, 4) << " p=" << vstr (p3, 3));
            const Matrix44<T>& r = m4.setAxisAngle (ax, ang);
            VP_REQUIRE (c, &r == &m4, "m44-setAxisAngle/returns-this", "does not return *this");
            check_builder<T, 4> (c, "m44-setAxisAngle", m4, rodrigues_rowvec<4> ((quad) ax.x, (quad) ax.y, (quad) ax.z, (quad) ang), 24 * rot_scale<T, S> (0, false), true, p3, 48 * rot_scale<T, S> (0, false));
            // the axis is normalised in T (a few ulps per component, squared and doubled when 1-cos = 2):
            // measured worst slot error 5.5 eps, |M M^T - I| 10.8 eps, |det - 1| 6.8 eps (1.6e7 cases)
            break;
        }
        case B33_ROTATION:
        {
            S ang = pol.template angle<S> (c);
            if (std::fabs (ang) > 3.2)
            {
                c.label (BL_MULTIPERIOD);
                c.nt ();
            }
            VP_NOTE (c, tn << " M33.setRotation r=" << ang << " previous=" << mstr (m3, 3) << " p=" << vstr (p2, 2));
            const Matrix33<T>& r = m3.setRotation (ang);
            VP_REQUIRE (c, &r == &m3, "m33-setRotation/returns-this", "does not return *this");
            check_builder<T, 3> (c, "m33-setRotation", m3, E_rot33 ((quad) ang), 2 * rot_scale<T, S> (std::fabs ((double) ang), true), true, p2, 4 * rot_scale<T, S> (0, false)); // measured: slot 0.27 eps, orthonormality 0.73 eps
            break;
        }
        case B22_ROTATION:
        {
            S ang = pol.template angle<S> (c);
            if (std::fabs (ang) > 3.2)
            {
                c.label (BL_MULTIPERIOD);
                c.nt ();
            }
            VP_NOTE (c, tn << " M22.setRotation r=" << ang << " previous=" << mstr (m2, 2) << " p=" << vstr (p2, 2));
            const Matrix22<T>& r = m2.setRotation (ang);
            VP_REQUIRE (c, &r == &m2, "m22-setRotation/returns-this", "does not return *this");
            check_builder<T, 2> (c, "m22-setRotation", m2, E_rot22 ((quad) ang), 2 * rot_scale<T, S> (std::fabs ((double) ang), true), true, p2, 4 * rot_scale<T, S> (0, false)); // measured: slot 0.27 eps, orthonormality 0.72 eps
            break;
        }
        default: break;
    }
}

// T: matrix element type; S: element type of the parameter for the builders that are templates on it (every one except
// setScale (T)); S == T in build_* (the replays' draw sequence), any of float / double / int / short in build_near_*.
// Documented conversions for S != T: the exact builders store (T) value; setEulerAngles and Matrix22/33::setRotation
// evaluate cos ((T) r) and keep it in variables of type S, setAxisAngle computes entirely in S - the rotation bounds are
// scaled by rot_scale<T, S> exactly as for the in-place forms (c09_inplace.h).  No integral angles.
template <class T, class S, class P> static void build_ops (vp::Ctx& c, P& pol)
{
    vp::Src&          s     = c.s;
    const bool        s_int = std::is_integral<S>::value;
    const bool        mixed = !std::is_same<S, T>::value;
    const std::string tn    = std::string (TN<T>::n ()) + (mixed ? std::string (" <") + TN<S>::n () + ">" : std::string ());
    int               op    = s.pick (BUILD_OPS);
    if (s_int) // no integral angles: an exact builder of the same matrix size instead
        op = op == B44_EULER ? B44_TRANSLATION : op == B44_AXISANGLE ? B44_SHEAR_SHEAR6 : op == B33_ROTATION ? B33_SHEAR_VEC2 : op == B22_ROTATION ? B22_SCALE_VEC : op;
    c.label (op);
    // the builder is invoked on a matrix with arbitrary previous contents: every slot must be overwritten
    Matrix44<T> m4;
    Matrix33<T> m3;
    Matrix22<T> m2;
    int         kind = 0;
    if (op <= B44_AXISANGLE)
        kind = pol.template matrix<Matrix44<T>, T, 4> (c, m4);
    else if (op <= B33_SHEAR_VEC2)
        kind = pol.template matrix<Matrix33<T>, T, 3> (c, m3);
    else
        kind = pol.template matrix<Matrix22<T>, T, 2> (c, m2);
    if (kind == 2)
    {
        c.label (BL_NONAFFINE);
        c.nt ();
    }
    Vec3<T> p3 = pol.template point<T> (c);
    Vec2<T> p2 (p3.x, p3.y);
    if (op <= B44_AXISANGLE)
    {
        // translation() of the arbitrary matrix returns row 3
        Vec3<T> tr = m4.translation ();
        VP_REQUIRE (c, same<T> (tr.x, m4[3][0]) && same<T> (tr.y, m4[3][1]) && same<T> (tr.z, m4[3][2]), "m44-translation()/row", TN<T>::n () << " translation() = " << vstr (tr, 3) << " of " << mstr (m4, 4));
    }
    else if (op <= B33_SHEAR_VEC2)
    {
        Vec2<T> tr = m3.translation ();
        VP_REQUIRE (c, same<T> (tr.x, m3[2][0]) && same<T> (tr.y, m3[2][1]), "m33-translation()/row", TN<T>::n () << " translation() = " << vstr (tr, 2) << " of " << mstr (m3, 3));
    }
    switch (op)
    {
        case B44_TRANSLATION:
        {
            Vec3<S> t = pol.template param3<S> (c);
            VP_NOTE (c, tn << " M44.setTranslation t=" << vstr (t, 3) << " previous=" << mstr (m4, 4) << " p=" << vstr (p3, 3));
            const Matrix44<T>& r = m4.setTranslation (t);
            VP_REQUIRE (c, &r == &m4, "m44-setTranslation/returns-this", "does not return *this");
            quad tq[3] = { (quad) (T) t.x, (quad) (T) t.y, (quad) (T) t.z };
            check_builder<T, 4> (c, "m44-setTranslation", m4, E_translation<4> (tq), 0, false, p3);
            Vec3<T> tr = m4.translation ();
            VP_REQUIRE (c, same<T> (tr.x, (T) t.x) && same<T> (tr.y, (T) t.y) && same<T> (tr.z, (T) t.z), "m44-translation()/after-set", TN<T>::n () << " translation() = " << vstr (tr, 3) << " after setTranslation(" << vstr (t, 3) << ")");
            break;
        }
        case B44_SCALE_UNIFORM:
        {
            T sc = pol.template param<T> (c);
            VP_NOTE (c, tn << " M44.setScale(T) s=" << sc << " previous=" << mstr (m4, 4) << " p=" << vstr (p3, 3));
            const Matrix44<T>& r = m4.setScale (sc);
            VP_REQUIRE (c, &r == &m4, "m44-setScale(T)/returns-this", "does not return *this");
            quad sq[3] = { (quad) sc, (quad) sc, (quad) sc };
            check_builder<T, 4> (c, "m44-setScale(T)", m4, E_scale<4> (sq, 3), 0, false, p3);
            break;
        }
        case B44_SCALE_VEC:
        {
            Vec3<S> sc = pol.template param3<S> (c);
            VP_NOTE (c, tn << " M44.setScale(Vec3) s=" << vstr (sc, 3) << " previous=" << mstr (m4, 4) << " p=" << vstr (p3, 3));
            const Matrix44<T>& r = m4.setScale (sc);
            VP_REQUIRE (c, &r == &m4, "m44-setScale(Vec3)/returns-this", "does not return *this");
            quad sq[3] = { (quad) (T) sc.x, (quad) (T) sc.y, (quad) (T) sc.z };
            check_builder<T, 4> (c, "m44-setScale(Vec3)", m4, E_scale<4> (sq, 3), 0, false, p3);
            break;
        }
        case B44_SHEAR_VEC3:
        {
            // h[0]: x for each y, h[1]: x for each z, h[2]: y for each z
            Vec3<S> h = pol.template param3<S> (c);
            VP_NOTE (c, tn << " M44.setShear(Vec3) h=" << vstr (h, 3) << " previous=" << mstr (m4, 4) << " p=" << vstr (p3, 3));
            const Matrix44<T>& r = m4.setShear (h);
            VP_REQUIRE (c, &r == &m4, "m44-setShear(Vec3)/returns-this", "does not return *this");
            check_builder<T, 4> (c, "m44-setShear(Vec3)", m4, E_shear44 ((quad) (T) h[0], (quad) (T) h[1], (quad) (T) h[2], 0, 0, 0), 0, false, p3);
            break;
        }
        case B44_SHEAR_SHEAR6:
        {
            S h[6];
            for (int i = 0; i < 6; ++i)
                h[i] = pol.template param<S> (c);
            Shear6<S> sh (h[0], h[1], h[2], h[3], h[4], h[5]); // xy xz yz yx zx zy
            VP_NOTE (c, tn << " M44.setShear(Shear6) xy=" << h[0] << " xz=" << h[1] << " yz=" << h[2] << " yx=" << h[3] << " zx=" << h[4] << " zy=" << h[5] << " previous=" << mstr (m4, 4) << " p=" << vstr (p3, 3));
            VP_REQUIRE (c, sh.xy == h[0] && sh.xz == h[1] && sh.yz == h[2] && sh.yx == h[3] && sh.zx == h[4] && sh.zy == h[5], "shear6-ctor-order", "Shear6 constructor argument order");
            const Matrix44<T>& r = m4.setShear (sh);
            VP_REQUIRE (c, &r == &m4, "m44-setShear(Shear6)/returns-this", "does not return *this");
            check_builder<T, 4> (c, "m44-setShear(Shear6)", m4, E_shear44 ((quad) (T) sh.xy, (quad) (T) sh.xz, (quad) (T) sh.yz, (quad) (T) sh.yx, (quad) (T) sh.zx, (quad) (T) sh.zy), 0, false, p3);
            break;
        }
        case B44_EULER:
        case B44_AXISANGLE:
        case B33_ROTATION:
        case B22_ROTATION: build_rotation<T, S> (c, pol, op, m4, m3, m2, p3, p2, tn, std::integral_constant<bool, std::is_integral<S>::value> ()); break;
        case B33_SCALE_UNIFORM:
        {
            T sc = pol.template param<T> (c);
            VP_NOTE (c, tn << " M33.setScale(T) s=" << sc << " previous=" << mstr (m3, 3) << " p=" << vstr (p2, 2));
            const Matrix33<T>& r = m3.setScale (sc);
            VP_REQUIRE (c, &r == &m3, "m33-setScale(T)/returns-this", "does not return *this");
            quad sq[2] = { (quad) sc, (quad) sc };
            check_builder<T, 3> (c, "m33-setScale(T)", m3, E_scale<3> (sq, 2), 0, false, p2);
            break;
        }
        case B33_SCALE_VEC:
        {
            Vec2<S> sc = pol.template param2<S> (c);
            VP_NOTE (c, tn << " M33.setScale(Vec2) s=" << vstr (sc, 2) << " previous=" << mstr (m3, 3) << " p=" << vstr (p2, 2));
            const Matrix33<T>& r = m3.setScale (sc);
            VP_REQUIRE (c, &r == &m3, "m33-setScale(Vec2)/returns-this", "does not return *this");
            quad sq[2] = { (quad) (T) sc.x, (quad) (T) sc.y };
            check_builder<T, 3> (c, "m33-setScale(Vec2)", m3, E_scale<3> (sq, 2), 0, false, p2);
            break;
        }
        case B33_TRANSLATION:
        {
            Vec2<S> t = pol.template param2<S> (c);
            VP_NOTE (c, tn << " M33.setTranslation t=" << vstr (t, 2) << " previous=" << mstr (m3, 3) << " p=" << vstr (p2, 2));
            const Matrix33<T>& r = m3.setTranslation (t);
            VP_REQUIRE (c, &r == &m3, "m33-setTranslation/returns-this", "does not return *this");
            quad tq[2] = { (quad) (T) t.x, (quad) (T) t.y };
            check_builder<T, 3> (c, "m33-setTranslation", m3, E_translation<3> (tq), 0, false, p2);
            Vec2<T> tr = m3.translation ();
            VP_REQUIRE (c, same<T> (tr.x, (T) t.x) && same<T> (tr.y, (T) t.y), "m33-translation()/after-set", TN<T>::n () << " translation() = " << vstr (tr, 2) << " after setTranslation(" << vstr (t, 2) << ")");
            break;
        }
        case B33_SHEAR_SCALAR:
        {
            S xy = pol.template param<S> (c);
            VP_NOTE (c, tn << " M33.setShear(scalar) xy=" << xy << " previous=" << mstr (m3, 3) << " p=" << vstr (p2, 2));
            const Matrix33<T>& r = m3.setShear (xy);
            VP_REQUIRE (c, &r == &m3, "m33-setShear(scalar)/returns-this", "does not return *this");
            check_builder<T, 3> (c, "m33-setShear(scalar)", m3, E_shear33 ((quad) (T) xy, 0), 0, false, p2);
            break;
        }
        case B33_SHEAR_VEC2:
        {
            // h.x: x for each y, h.y: y for each x
            Vec2<S> h = pol.template param2<S> (c);
            VP_NOTE (c, tn << " M33.setShear(Vec2) h=" << vstr (h, 2) << " previous=" << mstr (m3, 3) << " p=" << vstr (p2, 2));
            const Matrix33<T>& r = m3.setShear (h);
            VP_REQUIRE (c, &r == &m3, "m33-setShear(Vec2)/returns-this", "does not return *this");
            check_builder<T, 3> (c, "m33-setShear(Vec2)", m3, E_shear33 ((quad) (T) h.x, (quad) (T) h.y), 0, false, p2);
            break;
        }
        case B22_SCALE_UNIFORM:
        {
            T sc = pol.template param<T> (c);
            VP_NOTE (c, tn << " M22.setScale(T) s=" << sc << " previous=" << mstr (m2, 2) << " p=" << vstr (p2, 2));
            const Matrix22<T>& r = m2.setScale (sc);
            VP_REQUIRE (c, &r == &m2, "m22-setScale(T)/returns-this", "does not return *this");
            quad sq[2] = { (quad) sc, (quad) sc };
            check_builder<T, 2> (c, "m22-setScale(T)", m2, E_scale<2> (sq, 2), 0, false, p2);
            break;
        }
        default:
        {
            Vec2<S> sc = pol.template param2<S> (c);
            VP_NOTE (c, tn << " M22.setScale(Vec2) s=" << vstr (sc, 2) << " previous=" << mstr (m2, 2) << " p=" << vstr (p2, 2));
            const Matrix22<T>& r = m2.setScale (sc);
            VP_REQUIRE (c, &r == &m2, "m22-setScale(Vec2)/returns-this", "does not return *this");
            quad sq[2] = { (quad) (T) sc.x, (quad) (T) sc.y };
            check_builder<T, 2> (c, "m22-setScale(Vec2)", m2, E_scale<2> (sq, 2), 0, false, p2);
            break;
        }
    }
}

template <class T> static void build_case (vp::Ctx& c)
{
    BuildGenDefault pol;
    build_ops<T, T> (c, pol);
}

#define C09_BUILD_RULE                                                                                                 \
    "one of 16 builders (rotations weighted x2-3) called on a matrix with arbitrary previous contents (identity / affine / general); parameters from {0, small ints, -1, 2^[-6,6], nice}; angles from {0, k*pi/2 |k|<=80, 2^-k, one period, +-20 periods}; axes axis-aligned / nice / tiny (down to 2^-120 float, 2^-1000 double) / huge (2^60, 2^500) / graded; oracle = matrix written from the documented action in quad + p*M through operator*; non-trivial = previous contents non-affine, or an angle beyond one period, or a tiny/huge axis"
VP_RANDOM (build_f, 600000, 10000000, C09_BUILD_RULE) { build_case<float> (c); }
VP_LABELS (build_f, C09_BUILD_LABELS)
VP_REQUIRE_LABELS (build_f, C09_BUILD_LABELS)
VP_RANDOM (build_d, 600000, 10000000, C09_BUILD_RULE) { build_case<double> (c); }
VP_LABELS (build_d, C09_BUILD_LABELS)
VP_REQUIRE_LABELS (build_d, C09_BUILD_LABELS)

#include "c09_inplace.h"
#include "c09_frames.h"

// ===================================================================================================================
// 4. builders again, at and around the special cases an implementation could single out: previous contents from the
//    structured generator, parameters 0 / 2^-k / +-1 +- 2^-k / up to 2^20, angles +-0 / 2^-k / j*pi/2 +- 2^-k, axes of
//    length 1 +- 2^-k (k = 4 .. digits+3), points with coordinates up to 2^20; parameter element types float / double /
//    int / short where the builder is a template on it.  Same oracle and bounds as build_*:
//    measured worst (C09_MEASURE, 1.2e6 cases per type): setAxisAngle slot 4.7 eps, |M M^T - I| 9.2 eps, |det - 1| 5.6 eps
//    (bounds 24 / 48 / 48); setEulerAngles 1.05 / 2.2 / 2.0 (6 / 12 / 12); setRotation 0.27 / 0.72 / 0.72 (2 / 4 / 4);
//    p * M error / bound <= 0.25; all other slots exact.  Parameter type float on a double matrix, in eps(float):
//    setRotation 0.25, setEulerAngles 0.86, setAxisAngle 4.0 (slots), 7.8 (|M M^T - I|); double on a float matrix:
//    <= 32 eps for angles up to 126 (bound 2 (1 + |r|) resp. 6 (1 + 3 max|r|): the header rounds the angle to float).
// ===================================================================================================================
enum
{
    BNL0 = BL_AXIS_GRADED + 1 // first near / structured label id of build_near_*
};
struct BuildGenNear
{
    int l0;
    template <class M, class T, int N> int matrix (vp::Ctx& c, M& m) { return near_matrix<M, T, N> (c, m, l0); }
    template <class T> Vec3<T>             point (vp::Ctx& c) { return gen_spoint<T> (c.s); }
    template <class T> T                   param (vp::Ctx& c)
    {
        int cls;
        T   v = gen_near_param<T> (c.s, cls);
        near_param_label (c, cls, l0);
        return v;
    }
    template <class T> Vec3<T> param3 (vp::Ctx& c)
    {
        Vec3<T> v;
        for (int i = 0; i < 3; ++i)
            v[i] = param<T> (c);
        return v;
    }
    template <class T> Vec2<T> param2 (vp::Ctx& c)
    {
        Vec2<T> v;
        for (int i = 0; i < 2; ++i)
            v[i] = param<T> (c);
        return v;
    }
    template <class T> T angle (vp::Ctx& c)
    {
        int cls;
        T   v = gen_near_angle<T> (c.s, cls);
        near_angle_label (c, cls, l0);
        return v;
    }
    template <class T> Vec3<T> angle3 (vp::Ctx& c)
    {
        Vec3<T> v;
        for (int i = 0; i < 3; ++i)
            v[i] = angle<T> (c);
        return v;
    }
    // axis of length 1 +- 2^-k: a coordinate axis (exactly +-(1 + d)), or a generic direction normalised in quad,
    // scaled by 1 + d and rounded; 1/4: the axis classes of build_*
    template <class T> Vec3<T> axis (vp::Ctx& c, int& cls)
    {
        vp::Src& s = c.s;
        Vec3<T>  a ((T) 0, (T) 0, (T) 0);
        int      k;
        int      ac = (int) s.below (4);
        if (ac == 3) return gen_axis<T> (s, cls);
        cls = 6;
        c.label (l0 + NL_AXIS_NEAR_UNIT);
        c.nt ();
        if (ac == 0)
        {
            int    i  = (int) s.below (3);
            bool   ng = s.coin ();
            double d  = gen_pert<T> (s, k);
            a[i]      = (T) (ng ? -(1.0 + d) : 1.0 + d);
            return a;
        }
        for (int i = 0; i < 3; ++i)
            a[i] = (T) s.uniform (-1.0, 1.0);
        if (a.x == 0 && a.y == 0 && a.z == 0) a.z = 1;
        double d = gen_pert<T> (s, k);
        Q3     u = unit (toq (a)) * ((quad) 1 + (quad) d);
        return Vec3<T> ((T) u.x, (T) u.y, (T) u.z);
    }
};
enum
{
    BNL_S_WIDER = BNL0 + NL_COUNT,
    BNL_S_NARROWER,
    BNL_S_INT,
    BNL_S_SHORT
};
template <class T> static void build_near_case (vp::Ctx& c)
{
    typedef typename OtherFloat<T>::type O;
    BuildGenNear                         pol;
    pol.l0 = BNL0;
    int sk = (int) c.s.below (8);
    switch (sk)
    {
        case 0:
            c.label (BNL_S_INT);
            build_ops<T, int> (c, pol);
            break;
        case 1:
            c.label (BNL_S_SHORT);
            build_ops<T, short> (c, pol);
            break;
        case 2:
        case 3:
            c.label (sizeof (O) > sizeof (T) ? BNL_S_WIDER : BNL_S_NARROWER);
            build_ops<T, O> (c, pol);
            break;
        default:
            c.label (BNL0 + NL_S_SAME);
            build_ops<T, T> (c, pol);
            break;
    }
}
#define C09_BUILD_NEAR_RULE                                                                                            \
    "one of 16 builders (rotations weighted x2-3) with a parameter of element type S = the matrix's T (1/2), the other floating type (1/4), int or short (1/8 each; no integral angles; setScale(T) always takes T), called on a matrix whose previous contents come from the structured generator (11 bases + {0, 1, -1, generic} mask, see inplace_structured_*); parameters from {0, +-2^-k, +-1 +- 2^-k, +-1, up to 2^20, generic}, angles from {+-0, +-2^-k, j*pi/2 +- 2^-k and neighbouring values, generic}, k = 4..digits+3; setAxisAngle axes of length 1 +- 2^-k (coordinate axis or generic direction; 1/4 the tiny / huge / graded classes); points with coordinates up to 2^20; oracle and bounds as build_* with the parameter converted to T as documented, rotation bounds in max(eps(S),eps(T)) (+ eps(T)|r| where the header rounds the angle to T); non-trivial = a 2^-k class, masked previous contents, or as build_*"
#define C09_BUILD_S_LABELS "param_wider_float(double on float matrix)", "param_narrower_float(float on double matrix)", "param_int", "param_short"
#define C09_BUILD_NEAR_REQUIRED                                                                                        \
    "m44_setTranslation", "m44_setScale_uniform", "m44_setScale_vec", "m44_setShear_vec3", "m44_setShear_shear6", "m44_setEulerAngles", "m44_setAxisAngle", "m33_setRotation", "m33_setScale_uniform", "m33_setScale_vec", "m33_setTranslation", "m33_setShear_scalar", "m33_setShear_vec2", "m22_setRotation", "m22_setScale_uniform", "m22_setScale_vec", "previous_contents_nonaffine", "matrix_identity", "matrix_identity_plus_2^-k_Eij", "matrix_projective_column_last_row_0001", "matrix_mask_0_1_-1_generic_applied", "param_zero", "param_2^-k", "param_+-1+-2^-k", "param_+-1", "param_up_to_2^20", "angle_zero", "angle_2^-k", "angle_j*pi/2+-2^-k", "axis_length_1+-2^-k", "param_same_type", "param_int", "param_short"
VP_RANDOM (build_near_f, 300000, 6000000, C09_BUILD_NEAR_RULE) { build_near_case<float> (c); }
VP_LABELS (build_near_f, C09_BUILD_LABELS, C09_NEAR_LABELS, C09_BUILD_S_LABELS)
VP_REQUIRE_LABELS (build_near_f, C09_BUILD_NEAR_REQUIRED, "param_wider_float(double on float matrix)")
VP_RANDOM (build_near_d, 300000, 6000000, C09_BUILD_NEAR_RULE) { build_near_case<double> (c); }
VP_LABELS (build_near_d, C09_BUILD_LABELS, C09_NEAR_LABELS, C09_BUILD_S_LABELS)
VP_REQUIRE_LABELS (build_near_d, C09_BUILD_NEAR_REQUIRED, "param_narrower_float(float on double matrix)")

// ===================================================================================================================
// 5. rotation builders whose axis / angle vector has components in a RATIO 2^-k (ratio_build_*)
//    setAxisAngle with an axis tilted out of a coordinate axis / plane by 2^-k rad (gen_ratio_vec, c09_util.h: one or
//    two components 2^-k times the largest, k = 1 .. digits+10, all sign patterns, any overall length), and
//    setEulerAngles / Matrix44::rotate with an angle vector of the same shape (tiny but non-zero angles next to
//    large ones).  The absolute bounds of build_* (24 eps per slot) stay; on top of them every slot is compared with
//    the quad value at a bound scaled by the SUM OF THE MAGNITUDES OF ITS TERMS:
//      setAxisAngle   R_ij = u_i u_j (1 - cos) + {cos | +-u_k sin}:  K eps (|u_i u_j| (|1 - cos| + |cos|) + |cos| resp. |u_k sin|)
//                     (u is normalised in T: relative error per component; 1 - cos carries the absolute error of cos)
//      setEulerAngles R = Rx Ry Rz: K eps (|Rx| |Ry| |Rz|)_ij - every entry is a sum of products of sines and cosines
//      rotate         K eps (|Rx| |Ry| |Rz| |M|)_ij
//    so that a slot which is proportional to the small component / the tiny angle is checked RELATIVE to it (an
//    implementation that drops the component is wrong by 100 % of that slot for every k), and the other slots at a few
//    eps absolute (a tilt of 1e-7 rad is 1e8 eps in double).  In addition the given axis must be a fixed direction:
//    |u R - u|_j <= sum_i |u_i| bound_ij, in quad.
//    Measured worst error / bound-without-K on the unchanged tree (C09_MEASURE): see the constants below.
// ===================================================================================================================
enum
{
    RB_AXISANGLE,
    RB_EULER_SET,
    RB_EULER_ROTATE,
    RB_NOPS
};
// K of the term-scaled bounds.  Error analysis: setAxisAngle - two normalised components (1.75 eps each), 1 - cos, two
// products and a sum per term: <= ~6 eps; setEulerAngles - up to three sin / cos factors (<= 1 eps each), two products,
// one sum: <= ~4.5 eps; rotate - the same entries, a product with M and a sum of three: <= ~6.5 eps.
// Measured worst error / (eps * sum|terms|), 2.1e6 cases per type, g++ -O2:
//   setAxisAngle 3.49 (float) 3.46 (double), |axis^ R - axis^| / its bound 0.20; setEulerAngles 2.20 / 2.03; rotate 2.41 / 2.38
static const double C09_K_AXIS = 16, C09_K_EULER = 12, C09_K_ROTATE = 16;

// sum of the magnitudes of the terms of every entry of Rx * Ry * Rz
static QM<4> euler_term_sums (quad rx, quad ry, quad rz)
{
    return absmul (absmul (rodrigues_rowvec<4> (1, 0, 0, rx), rodrigues_rowvec<4> (0, 1, 0, ry)), rodrigues_rowvec<4> (0, 0, 1, rz));
}
template <class T> static void check_axis_angle_scaled (vp::Ctx& c, const Matrix44<T>& M, const Vec3<T>& ax, T ang)
{
    const quad eps = EPS<T> (), dm = (quad) std::numeric_limits<T>::denorm_min ();
    Q3         u   = unit (toq (ax));
    quad       co = cosq ((quad) ang), si = sinq ((quad) ang);
    quad       tw = qabs (1 - co) + qabs (co);
    QM<4>      E  = rodrigues_rowvec<4> ((quad) ax.x, (quad) ax.y, (quad) ax.z, (quad) ang);
    quad       tol[3][3];
    for (int i = 0; i < 4; ++i)
        for (int j = 0; j < 4; ++j)
        {
            if (i == 3 || j == 3)
            {
                VP_REQUIRE (c, M[i][j] == (T) (i == j ? 1 : 0), "m44-setAxisAngle-ratio/border", TN<T>::n () << " setAxisAngle slot [" << i << "][" << j << "] = " << M[i][j]);
                continue;
            }
            quad mag   = i == j ? u[i] * u[i] * tw + qabs (co) : qabs (u[i] * u[j]) * tw + qabs (u[3 - i - j] * si);
            tol[i][j]  = (quad) C09_K_AXIS * eps * mag + dm;
            quad d     = qabs ((quad) M[i][j] - E.a[i][j]);
            C09_MEAS (std::string ("m44-setAxisAngle-ratio|") + TN<T>::n () + "|slot/(eps*terms)", d / (eps * mag + dm));
            VP_REQUIRE (c, d <= tol[i][j], "m44-setAxisAngle-ratio/slot", TN<T>::n () << " setAxisAngle slot [" << i << "][" << j << "] = " << M[i][j] << " expected " << qstr (E.a[i][j]) << " (error " << qstr (d) << ", bound " << qstr (tol[i][j]) << " = " << C09_K_AXIS << " eps x sum of |terms|); axis " << vstr (ax, 3) << " angle " << ang << " M=" << mstr (M, 4));
        }
    // the axis is a fixed direction of the rotation
    for (int j = 0; j < 3; ++j)
    {
        quad r = -u[j], t = 0;
        for (int i = 0; i < 3; ++i)
        {
            r += u[i] * (quad) M[i][j];
            t += qabs (u[i]) * tol[i][j];
        }
        C09_MEAS (std::string ("m44-setAxisAngle-ratio|") + TN<T>::n () + "|axis-fixed/bound", qabs (r) / t);
        VP_REQUIRE (c, qabs (r) <= t, "m44-setAxisAngle-ratio/axis-not-fixed", TN<T>::n () << " setAxisAngle: (axis^ * R - axis^)[" << j << "] = " << qstr (r) << " (bound " << qstr (t) << "); axis " << vstr (ax, 3) << " angle " << ang << " M=" << mstr (M, 4));
    }
}
// B: the library's result; E: expected (quad); A: per-slot sum of |terms|; rows 0..2 of the rotation block (all four
// columns for rotate), everything else must be exactly `exact`
template <class T> static void check_term_scaled (vp::Ctx& c, const char* key, const Matrix44<T>& B, const QM<4>& E, const QM<4>& A, int ncols, double K, const Matrix44<T>& exact, const std::string& what)
{
    const quad eps = EPS<T> (), dm = (quad) std::numeric_limits<T>::denorm_min ();
    VP_REQUIRE (c, (all_finite<Matrix44<T>, 4> (B)), std::string (key) + "/nonfinite", TN<T>::n () << " " << what << " produced " << mstr (B, 4));
    for (int i = 0; i < 4; ++i)
        for (int j = 0; j < 4; ++j)
        {
            if (i == 3 || j >= ncols)
            {
                VP_REQUIRE (c, same<T> (B[i][j], exact[i][j]), std::string (key) + "/untouched-slot", TN<T>::n () << " " << what << " slot [" << i << "][" << j << "] = " << B[i][j] << " expected exactly " << exact[i][j]);
                continue;
            }
            quad d = qabs ((quad) B[i][j] - E.a[i][j]), tol = (quad) K * eps * A.a[i][j] + dm;
            C09_MEAS (std::string (key) + "|" + TN<T>::n () + "|slot/(eps*terms)", d / (eps * A.a[i][j] + dm));
            VP_REQUIRE (c, d <= tol, std::string (key) + "/slot", TN<T>::n () << " " << what << " slot [" << i << "][" << j << "] = " << B[i][j] << " expected " << qstr (E.a[i][j]) << " (error " << qstr (d) << ", bound " << qstr (tol) << " = " << K << " eps x sum of |terms|); result " << mstr (B, 4));
        }
}
enum
{
    RBL0 = RB_NOPS,
    RBL_MULTIPERIOD = RBL0 + RL_COUNT,
    RBL_ANGLE_TINY,
    RBL_CURRENT_IDENTITY,
    RBL_CURRENT_NONAFFINE
};
template <class T> static void ratio_build_case (vp::Ctx& c)
{
    vp::Src&  s  = c.s;
    int       op = (int) s.below (4); // setAxisAngle twice as often
    RatioInfo ri;
    if (op == 3) op = RB_AXISANGLE;
    c.label (op);
    switch (op)
    {
        case RB_AXISANGLE:
        {
            // any length that keeps every component normal and the squared length finite
            const int   lo = FInfo<T>::minexp + Dig<T>::n + 12;
            Vec3<T>     ax = gen_ratio_vec<T> (s, ri, lo > AxisLim<T>::emin ? lo : AxisLim<T>::emin, AxisLim<T>::emax);
            T           ang = gen_angle<T> (s);
            Matrix44<T> m4;
            gen_matrix<Matrix44<T>, T, 4> (s, m4);
            Vec3<T> p3 = gen_point<T> (s);
            label_ratio<T> (c, ri, RBL0);
            if (std::fabs (ang) > 3.2) c.label (RBL_MULTIPERIOD);
            if (ang != 0 && std::fabs (ang) < 1e-3) c.label (RBL_ANGLE_TINY);
            VP_NOTE (c, TN<T>::n () << " M44.setAxisAngle (component ratios) axis=" << vstr (ax, 3) << " angle=" << ang << " previous=" << mstr (m4, 4) << " p=" << vstr (p3, 3));
            m4.setAxisAngle (ax, ang);
            check_axis_angle_scaled<T> (c, m4, ax, ang);
            check_builder<T, 4> (c, "m44-setAxisAngle", m4, rodrigues_rowvec<4> ((quad) ax.x, (quad) ax.y, (quad) ax.z, (quad) ang), 24, true, p3, 48);
            break;
        }
        case RB_EULER_SET:
        {
            Vec3<T>     a = gen_ratio_vec<T> (s, ri, -8, 5);
            Matrix44<T> m4;
            gen_matrix<Matrix44<T>, T, 4> (s, m4);
            label_ratio<T> (c, ri, RBL0);
            if (ri.e >= 2) c.label (RBL_MULTIPERIOD);
            c.label (RBL_ANGLE_TINY);
            VP_NOTE (c, TN<T>::n () << " M44.setEulerAngles (component ratios) r=" << vstr (a, 3) << " previous=" << mstr (m4, 4));
            m4.setEulerAngles (a);
            check_term_scaled<T> (c, "m44-setEulerAngles-ratio", m4, E_euler ((quad) a.x, (quad) a.y, (quad) a.z), euler_term_sums ((quad) a.x, (quad) a.y, (quad) a.z), 3, C09_K_EULER, Matrix44<T> (), "setEulerAngles " + vstr (a, 3));
            break;
        }
        default:
        {
            Vec3<T>     a = gen_ratio_vec<T> (s, ri, -8, 5);
            Matrix44<T> m4, b4;
            int         base, eij;
            bool        masked;
            int         kind = gen_structured<Matrix44<T>, T, 4> (s, m4, base, masked, eij);
            b4               = m4;
            label_ratio<T> (c, ri, RBL0);
            if (ri.e >= 2) c.label (RBL_MULTIPERIOD);
            c.label (RBL_ANGLE_TINY);
            if (kind == 0) c.label (RBL_CURRENT_IDENTITY);
            if (kind == 2) c.label (RBL_CURRENT_NONAFFINE);
            VP_NOTE (c, TN<T>::n () << " M44.rotate (component ratios) r=" << vstr (a, 3) << " M=" << mstr (b4, 4));
            m4.rotate (a);
            QM<4> Mq = QM<4>::from (b4);
            check_term_scaled<T> (c, "m44-rotate-ratio", m4, E_euler ((quad) a.x, (quad) a.y, (quad) a.z) * Mq, absmul (euler_term_sums ((quad) a.x, (quad) a.y, (quad) a.z), Mq), 4, C09_K_ROTATE, b4, "rotate " + vstr (a, 3) + " of " + mstr (b4, 4));
            break;
        }
    }
}
#define C09_RATIO_BUILD_RULE                                                                                           \
    "setAxisAngle (1/2) with an axis, setEulerAngles / Matrix44::rotate (1/4 each) with an angle vector, in which one or two components are 2^-k times the largest, k uniform in 1..digits+10 (own k per small component), the third component large or exactly zero, all 8 sign patterns, significands 1 or random, overall scale 2^e (axis: any normal length down to 2^-90 / 2^-957 and up to 2^60 / 2^500; angles 2^[-8,5]; e = 0 in half of the cases); angle of setAxisAngle from the build_* classes; previous contents / current matrix from the general resp. structured generator; every slot against the quad matrix at K eps x (sum of the magnitudes of the slot's terms), the absolute bounds of build_*, and axis^ * R = axis^; every case non-trivial"
#define C09_RATIO_BUILD_LABELS "m44_setAxisAngle", "m44_setEulerAngles", "m44_rotate", C09_RATIO_LABELS, "angle_beyond_one_period", "angle_or_component_below_1e-3", "current_identity", "current_nonaffine"
VP_RANDOM (ratio_build_f, 300000, 6000000, C09_RATIO_BUILD_RULE) { ratio_build_case<float> (c); }
VP_LABELS (ratio_build_f, C09_RATIO_BUILD_LABELS)
VP_REQUIRE_LABELS (ratio_build_f, C09_RATIO_BUILD_LABELS)
VP_RANDOM (ratio_build_d, 300000, 6000000, C09_RATIO_BUILD_RULE) { ratio_build_case<double> (c); }
VP_LABELS (ratio_build_d, C09_RATIO_BUILD_LABELS)
VP_REQUIRE_LABELS (ratio_build_d, C09_RATIO_BUILD_LABELS)

VP_MAIN ("C09")
