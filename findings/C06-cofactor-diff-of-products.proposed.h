// Proposed (NOT applied) source fix for the C06 finding "inverse-cofactor3x3-det-cancellation".
// This header is documentation only: nothing includes it.  Apply with  patch -p1 -d <tree> < (the text between the #if 0 / #endif lines).
// Validated in a scratch copy of the tree: with it, `python3 vp/run.py C06 --tier quick` passes with no known key (6.8e6 cases), incl. the near_rank_1 class.
#if 0
--- a/src/Imath/ImathMatrix.h	2026-09-17 06:40:29.263586117 +0000
+++ b/src/Imath/ImathMatrix.h	2026-09-26 14:01:32.904923502 +0000
@@ -18,11 +18,13 @@
 #include "ImathShear.h"
 #include "ImathVec.h"
 
+#include <cmath>
 #include <cstring>
 #include <iomanip>
 #include <iostream>
 #include <limits>
 #include <string.h>
+#include <type_traits>
 
 #if (defined _WIN32 || defined _WIN64) && defined _MSC_VER
 // suppress exception specification warnings
@@ -31,6 +33,29 @@
 
 IMATH_INTERNAL_NAMESPACE_HEADER_ENTER
 
+/// @cond Doxygen_Suppress
+namespace detail
+{
+// a*b - c*d with one rounding error instead of catastrophic cancellation
+// (Kahan's algorithm; the fused multiply-adds recover the rounding error of c*d).
+template <class T>
+IMATH_HOSTDEVICE inline typename std::enable_if<std::is_floating_point<T>::value, T>::type
+diffOfProducts (T a, T b, T c, T d) IMATH_NOEXCEPT
+{
+    T cd  = c * d;
+    T err = std::fma (-c, d, cd);
+    T dop = std::fma (a, b, -cd);
+    return dop + err;
+}
+template <class T>
+IMATH_HOSTDEVICE constexpr inline typename std::enable_if<!std::is_floating_point<T>::value, T>::type
+diffOfProducts (T a, T b, T c, T d) IMATH_NOEXCEPT
+{
+    return a * b - c * d;
+}
+} // namespace detail
+/// @endcond
+
 /// Enum used to indicate uninitialized construction of Matrix22,
 /// Matrix33, Matrix44
 enum IMATH_EXPORT_ENUM Uninitialized
@@ -2850,17 +2875,17 @@
     if (x[0][2] != 0 || x[1][2] != 0 || x[2][2] != 1)
     {
         Matrix33 s (
-            x[1][1] * x[2][2] - x[2][1] * x[1][2],
-            x[2][1] * x[0][2] - x[0][1] * x[2][2],
-            x[0][1] * x[1][2] - x[1][1] * x[0][2],
-
-            x[2][0] * x[1][2] - x[1][0] * x[2][2],
-            x[0][0] * x[2][2] - x[2][0] * x[0][2],
-            x[1][0] * x[0][2] - x[0][0] * x[1][2],
-
-            x[1][0] * x[2][1] - x[2][0] * x[1][1],
-            x[2][0] * x[0][1] - x[0][0] * x[2][1],
-            x[0][0] * x[1][1] - x[1][0] * x[0][1]);
+            detail::diffOfProducts (x[1][1], x[2][2], x[2][1], x[1][2]),
+            detail::diffOfProducts (x[2][1], x[0][2], x[0][1], x[2][2]),
+            detail::diffOfProducts (x[0][1], x[1][2], x[1][1], x[0][2]),
+
+            detail::diffOfProducts (x[2][0], x[1][2], x[1][0], x[2][2]),
+            detail::diffOfProducts (x[0][0], x[2][2], x[2][0], x[0][2]),
+            detail::diffOfProducts (x[1][0], x[0][2], x[0][0], x[1][2]),
+
+            detail::diffOfProducts (x[1][0], x[2][1], x[2][0], x[1][1]),
+            detail::diffOfProducts (x[2][0], x[0][1], x[0][0], x[2][1]),
+            detail::diffOfProducts (x[0][0], x[1][1], x[1][0], x[0][1]));
 
         T r = x[0][0] * s[0][0] + x[0][1] * s[1][0] + x[0][2] * s[2][0];
 
@@ -2965,17 +2990,17 @@
     if (x[0][2] != 0 || x[1][2] != 0 || x[2][2] != 1)
     {
         Matrix33 s (
-            x[1][1] * x[2][2] - x[2][1] * x[1][2],
-            x[2][1] * x[0][2] - x[0][1] * x[2][2],
-            x[0][1] * x[1][2] - x[1][1] * x[0][2],
-
-            x[2][0] * x[1][2] - x[1][0] * x[2][2],
-            x[0][0] * x[2][2] - x[2][0] * x[0][2],
-            x[1][0] * x[0][2] - x[0][0] * x[1][2],
-
-            x[1][0] * x[2][1] - x[2][0] * x[1][1],
-            x[2][0] * x[0][1] - x[0][0] * x[2][1],
-            x[0][0] * x[1][1] - x[1][0] * x[0][1]);
+            detail::diffOfProducts (x[1][1], x[2][2], x[2][1], x[1][2]),
+            detail::diffOfProducts (x[2][1], x[0][2], x[0][1], x[2][2]),
+            detail::diffOfProducts (x[0][1], x[1][2], x[1][1], x[0][2]),
+
+            detail::diffOfProducts (x[2][0], x[1][2], x[1][0], x[2][2]),
+            detail::diffOfProducts (x[0][0], x[2][2], x[2][0], x[0][2]),
+            detail::diffOfProducts (x[1][0], x[0][2], x[0][0], x[1][2]),
+
+            detail::diffOfProducts (x[1][0], x[2][1], x[2][0], x[1][1]),
+            detail::diffOfProducts (x[2][0], x[0][1], x[0][0], x[2][1]),
+            detail::diffOfProducts (x[0][0], x[1][1], x[1][0], x[0][1]));
 
         T r = x[0][0] * s.x[0][0] + x[0][1] * s.x[1][0] + x[0][2] * s.x[2][0];
 
@@ -4417,19 +4442,19 @@
         return gjInverse (singExc);
 
     Matrix44 s (
-        x[1][1] * x[2][2] - x[2][1] * x[1][2],
-        x[2][1] * x[0][2] - x[0][1] * x[2][2],
-        x[0][1] * x[1][2] - x[1][1] * x[0][2],
+        detail::diffOfProducts (x[1][1], x[2][2], x[2][1], x[1][2]),
+        detail::diffOfProducts (x[2][1], x[0][2], x[0][1], x[2][2]),
+        detail::diffOfProducts (x[0][1], x[1][2], x[1][1], x[0][2]),
         0,
 
-        x[2][0] * x[1][2] - x[1][0] * x[2][2],
-        x[0][0] * x[2][2] - x[2][0] * x[0][2],
-        x[1][0] * x[0][2] - x[0][0] * x[1][2],
+        detail::diffOfProducts (x[2][0], x[1][2], x[1][0], x[2][2]),
+        detail::diffOfProducts (x[0][0], x[2][2], x[2][0], x[0][2]),
+        detail::diffOfProducts (x[1][0], x[0][2], x[0][0], x[1][2]),
         0,
 
-        x[1][0] * x[2][1] - x[2][0] * x[1][1],
-        x[2][0] * x[0][1] - x[0][0] * x[2][1],
-        x[0][0] * x[1][1] - x[1][0] * x[0][1],
+        detail::diffOfProducts (x[1][0], x[2][1], x[2][0], x[1][1]),
+        detail::diffOfProducts (x[2][0], x[0][1], x[0][0], x[2][1]),
+        detail::diffOfProducts (x[0][0], x[1][1], x[1][0], x[0][1]),
         0,
 
         0,
@@ -4492,19 +4517,19 @@
         return gjInverse ();
 
     Matrix44 s (
-        x[1][1] * x[2][2] - x[2][1] * x[1][2],
-        x[2][1] * x[0][2] - x[0][1] * x[2][2],
-        x[0][1] * x[1][2] - x[1][1] * x[0][2],
+        detail::diffOfProducts (x[1][1], x[2][2], x[2][1], x[1][2]),
+        detail::diffOfProducts (x[2][1], x[0][2], x[0][1], x[2][2]),
+        detail::diffOfProducts (x[0][1], x[1][2], x[1][1], x[0][2]),
         0,
 
-        x[2][0] * x[1][2] - x[1][0] * x[2][2],
-        x[0][0] * x[2][2] - x[2][0] * x[0][2],
-        x[1][0] * x[0][2] - x[0][0] * x[1][2],
+        detail::diffOfProducts (x[2][0], x[1][2], x[1][0], x[2][2]),
+        detail::diffOfProducts (x[0][0], x[2][2], x[2][0], x[0][2]),
+        detail::diffOfProducts (x[1][0], x[0][2], x[0][0], x[1][2]),
         0,
 
-        x[1][0] * x[2][1] - x[2][0] * x[1][1],
-        x[2][0] * x[0][1] - x[0][0] * x[2][1],
-        x[0][0] * x[1][1] - x[1][0] * x[0][1],
+        detail::diffOfProducts (x[1][0], x[2][1], x[2][0], x[1][1]),
+        detail::diffOfProducts (x[2][0], x[0][1], x[0][0], x[2][1]),
+        detail::diffOfProducts (x[0][0], x[1][1], x[1][0], x[0][1]),
         0,
 
         0,
#endif
